"""VM-level witness search for the config operators of C15: a small config and queries with the documented result."""
import subprocess
CFG = 'class A { x = 1; }; class B : A { class C { y = 2; }; }; class D : B { };'
CASES = [
    ('inheritsFrom gives the base class', 'configName (inheritsFrom (configFile >> "B"))', 'A'),
    ('inheritsFrom follows one step only', 'configName (inheritsFrom (configFile >> "D"))', 'B'),
    ('a class without base derives from nothing', 'isNull (inheritsFrom (configFile >> "A"))', 'true'),
    ('inherited entries are found through the base', 'getNumber (configFile >> "D" >> "x")', '1'),
]
def search(sqfvm):
    for (name, code, want) in CASES:
        try:
            p = subprocess.run([sqfvm, '-a', '--no-execute-print', '--no-load-executable-dir', '--max-runtime', '5000', '--config', CFG, '--sqf', 'diag_log ["RES", %s];' % code], capture_output=True, timeout=30)
        except subprocess.TimeoutExpired:
            return True, '%s: `%s` did not return within 30 s' % (name, code), code
        out = p.stdout.decode('utf-8', 'replace') + p.stderr.decode('utf-8', 'replace')
        got = [l for l in out.split('\n') if 'RES' in l and 'DIAG_LOG' in l]
        if not got or ('[RES,%s]' % want) not in got[0].replace(' ', '').replace('"', ''):
            return True, '%s: `%s` gave %s, expected %s' % (name, code, got[0].strip()[-80:] if got else 'no result: ' + out[-200:].replace('\n', ' | '), want), code
    return False, '%d queries on the real code: all as documented' % len(CASES), None
