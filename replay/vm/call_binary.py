"""VM-level witness search for C06 (code half): str of a code value must compile back to an equal code value.
Run against a sqfvm binary built from /repo's current tree."""
import itertools, subprocess, tempfile, os

OPS = ['+', '-', '*', 'select', 'max', '&&', '==']

def shapes():
    # all parenthesisations of 3 and 4 operand expressions over a few operators of equal and different precedence
    ops = ['-', '+', '*', 'min']
    vals = ['1', '2', '3', '4']
    out = []
    for o1, o2 in itertools.product(ops, repeat=2):
        out.append('(%s %s %s) %s %s' % (vals[0], o1, vals[1], o2, vals[2]))
        out.append('%s %s (%s %s %s)' % (vals[0], o1, vals[1], o2, vals[2]))
    for o1, o2, o3 in itertools.product(ops[:3], repeat=3):
        out.append('(%s %s (%s %s %s)) %s %s' % (vals[0], o1, vals[1], o2, vals[2], o3, vals[3]))
        out.append('%s %s ((%s %s %s) %s %s)' % (vals[0], o1, vals[1], o2, vals[2], o3, vals[3]))
        out.append('(%s %s %s) %s (%s %s %s)' % (vals[0], o1, vals[1], o2, vals[2], o3, vals[3]))
    return out

def search(sqfvm):
    exprs = shapes()
    lines = ['private _bad = [];']
    for e in exprs:
        lines.append('private _c = {%s}; private _s = str _c; private _c2 = compile (_s select [1, count _s - 2]); '
                     'if (!(_c isEqualTo _c2) || {!((call _c) isEqualTo (call _c2))}) then { _bad pushBack [%s, _s] };' % (e, repr(e).replace("'", '"')))
    lines.append('diag_log ["C06RESULT", count _bad, _bad select [0, 3]];')
    with tempfile.NamedTemporaryFile('w', suffix='.sqf', delete=False) as f:
        f.write('\n'.join(lines)); path = f.name
    try:
        p = subprocess.run([sqfvm, '-a', '--no-execute-print', '--no-load-executable-dir', '--max-runtime', '20000', '--input-sqf', path],
                           capture_output=True, timeout=60)
    finally:
        os.unlink(path)
    out = p.stdout.decode('utf-8', 'replace') + p.stderr.decode('utf-8', 'replace')
    for l in out.split('\n'):
        if 'C06RESULT' in l:
            bad = 'C06RESULT,0,' not in l.replace(' ', '').replace('"', '')
            return bad, l.strip()[:600], '\n'.join(lines[:3]) + '\n...'
    return False, 'no result line: ' + out[-400:], ''
