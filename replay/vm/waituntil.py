"""VM-level witness search for the scheduler side of C12 (waitUntil, terminate, sleeping scripts next to finishing ones):
spawned scripts with the documented result, run on a sqfvm built from the current tree."""
import subprocess, tempfile, os
CASES = [
    ('waits until the condition is true', 'n = 0; [] spawn { waitUntil { n = n + 1; n >= 5 }; diag_log ["RES", n] };', '[RES,5]'),
    ('a true condition ends the wait at once', 'n = 0; [] spawn { waitUntil { n = n + 1; true }; diag_log ["RES", n] };', '[RES,1]'),
    ('a terminated script executes nothing after its next scheduling point', 'r = []; [] spawn { h = [] spawn { for "_i" from 1 to 5 do { sleep 0.05; r pushBack _i } }; sleep 0.12; terminate h; sleep 0.4; diag_log ["RES", count r <= 3, scriptDone h] };', '[RES,true,true]'),
    ('a sleeping script survives the end of the script in front of it', 'trace = []; hObs = [] spawn { sleep 0.25; m = scriptDone hB; sleep 0.45; diag_log ["RES", trace, m, scriptDone hB] }; hA = [] spawn { sleep 0.1; trace pushBack "A" }; hB = [] spawn { sleep 0.4; trace pushBack "B" };', '[RES,[A,B],false,true]'),
    ('statements behind the wait run afterwards', 'r = []; [] spawn { waitUntil { r pushBack 1; count r >= 3 }; r pushBack 9; diag_log ["RES", r] };', '[RES,[1,1,1,9]]'),
]
def search(sqfvm):
    for (name, code, want) in CASES:
        with tempfile.NamedTemporaryFile('w', suffix='.sqf', delete=False) as f:
            f.write(code); path = f.name
        try:
            p = subprocess.run([sqfvm, '-a', '--no-execute-print', '--no-load-executable-dir', '--max-runtime', '10000', '--input-sqf', path], capture_output=True, timeout=40)
            out = p.stdout.decode('utf-8', 'replace') + p.stderr.decode('utf-8', 'replace')
        except subprocess.TimeoutExpired:
            return True, '%s: did not return within 40 s' % name, code
        finally:
            os.unlink(path)
        got = [l for l in out.split('\n') if 'RES' in l and 'DIAG_LOG' in l]
        if not got or want not in got[0].replace(' ', '').replace('"', ''):
            return True, '%s: `%s` gave %s, expected %s' % (name, code, got[0].strip()[-80:] if got else 'no result: ' + out[-200:].replace('\n', ' | '), want), code
    return False, '%d programs on the real code: all as documented' % len(CASES), None
