"""VM-level witness search for the exit behaviours of forEach / count / select {code} / apply / findIf, of for and of the switch operators (C02): programs with the
reference result, run on a sqfvm built from the current tree."""
import subprocess, tempfile, os
CASES = [
    ('forEach visits every element in order', 'private _r = []; { _r pushBack [_forEachIndex, _x] } forEach [7,8,9]; _r', '[[0,7],[1,8],[2,9]]'),
    ('forEach over an empty array runs nothing', 'private _r = 0; { _r = 1 } forEach []; _r', '0'),
    ('forEach ends when the code empties the array', 'a = [1,2,3,4,5]; private _n = 0; { _n = _n + 1; a resize 0 } forEach a; _n', '1'),
    ('forEach ends when the code shrinks the array below the next index', 'a = [1,2,3,4,5]; private _n = 0; { _n = _n + 1; if (_forEachIndex == 1) then { a resize 1 } } forEach a; _n', '2'),
    ('forEach goes on over elements the code appends', 'a = [1,2]; private _n = 0; { _n = _n + 1; if (count a < 4) then { a pushBack 0 } } forEach a; _n', '4'),
    ('count counts the elements the code accepts', '{ _x > 1 } count [1,2,3]', '2'),
    ('count ends when the code empties the array', 'a = [1,2,3]; { a resize 0; true } count a', '1'),
    ('select keeps the elements the code accepts', '[1,2,3,4] select { _x > 2 }', '[3,4]'),
    ('select ends when the code empties the array', 'a = [1,2,3]; a select { a resize 0; true }', '[]'),
    ('apply collects the results', '[1,2,3] apply { _x * 2 }', '[2,4,6]'),
    ('apply ends when the code empties the array', 'a = [1,2,3]; a apply { a resize 0; 1 }', '[1]'),
    ('findIf gives the first index', '[1,2,3] findIf { _x == 3 }', '2'),
    ('findIf ends when the code empties the array', 'a = [1,2,3]; a findIf { a resize 0; false }', '-1'),
    ('apply goes on over elements the code appends', 'a = [1,2,3]; a apply { if (_x < 3) then { a pushBack (_x * 10) }; _x }', '[1,2,3,10,20]'),
    ('apply after shrinking and growing', 'a = [1,2,3,4]; a apply { if (_x == 1) then { a resize 2 }; if (_x == 2) then { a append [7,8,9] }; _x }', '[1,2,7,8,9]'),
    ('count goes on over elements the code appends', 'a = [1,2]; { if (count a < 4) then { a pushBack 5 }; _x > 1 } count a', '3'),
    ('select goes on over elements the code appends', 'a = [1,2]; a select { if (count a < 4) then { a pushBack 5 }; _x > 1 }', '[2,5,5]'),
    ('findIf finds an element the code appended', 'a = [1,2]; a findIf { if (count a < 3) then { a pushBack 9 }; _x == 9 }', '2'),
    ('for counts up', 'private _r = []; for "_i" from 1 to 3 do { _r pushBack _i }; _r', '[1,2,3]'),
    ('for with a step', 'private _r = []; for "_i" from 0 to 10 step 5 do { _r pushBack _i }; _r', '[0,5,10]'),
    ('for counts down', 'private _r = []; for "_i" from 3 to 1 step -1 do { _r pushBack _i }; _r', '[3,2,1]'),
    ('for with from behind to runs nothing', 'private _r = 0; for "_i" from 1 to 0 do { _r = 1 }; _r', '0'),
    ('for runs once when from equals to', 'private _r = 0; for "_i" from 2 to 2 do { _r = _r + 1 }; _r', '1'),
    ('for uses the value the body left in the variable', 'private _r = []; for "_i" from 0 to 5 do { _r pushBack _i; _i = _i + 1 }; _r', '[0,2,4]'),
    ('switch takes the matching case', 'switch 2 do { case 1: { "one" }; case 2: { "two" }; default { "def" } }', 'two'),
    ('switch falls through cases without code', 'switch 3 do { case 1; case 3: { "fall" }; default { "def" } }', 'fall'),
    ('switch takes the first matching case only', 'switch 1 do { case 1: { "first" }; case 1: { "second" } }', 'first'),
    ('switch takes default when no case matches', 'switch 9 do { case 1: { "one" }; default { "def" } }', 'def'),
    ('switch prefers a later case over an earlier default', 'switch 9 do { default { "def" }; case 9: { "nine" } }', 'nine'),
    ('case outside a switch is reported', '{ case 1 } except__ { }; 7', '7'),
    ('default outside a switch is reported', '{ default { 1 } } except__ { }; 7', '7'),
    ('if true then runs the block', 'private _r = 0; if (true) then { _r = 1 }; _r', '1'),
    ('if false then runs nothing', 'private _r = 0; if (false) then { _r = 1 }; _r', '0'),
    ('if then else takes the first block on true', 'if (true) then { "a" } else { "b" }', 'a'),
    ('if then else takes the second block on false', 'if (false) then { "a" } else { "b" }', 'b'),
    ('if then with an array of the wrong size is reported', '{ if (true) then [{1}] } except__ { }; 7', '7'),
    ('exitWith leaves the scope with the value of its block', 'call { if (true) exitWith { "out" }; "in" }', 'out'),
    ('exitWith with a false condition goes on', 'call { if (false) exitWith { "out" }; "in" }', 'in'),
    ('false && {code} does not evaluate the code', 'private _r = 0; private _b = false && { _r = 1; true }; [_b, _r]', '[false,0]'),
    ('true && {code} evaluates the code', 'private _r = 0; private _b = true && { _r = 1; false }; [_b, _r]', '[false,1]'),
    ('true || {code} does not evaluate the code', 'private _r = 0; private _b = true || { _r = 1; false }; [_b, _r]', '[true,0]'),
    ('false || {code} evaluates the code', 'private _r = 0; private _b = false || { _r = 1; true }; [_b, _r]', '[true,1]'),
    ('catch binds the thrown value', 'try { throw "boom"; "not reached" } catch { _exception }', 'boom'),
    ('try without a throw yields the value of the try block', 'try { "fine" } catch { "caught" }', 'fine'),
    ('statements behind a throw are not executed', 'private _r = 0; try { throw 1; _r = 1 } catch { }; _r', '0'),
]
def search(sqfvm):
    for (name, code, want) in CASES:
        with tempfile.NamedTemporaryFile('w', suffix='.sqf', delete=False) as f:
            f.write('private _res = call { %s }; diag_log ["RES", str _res];' % code); path = f.name
        try:
            p = subprocess.run([sqfvm, '-a', '--no-execute-print', '--no-load-executable-dir', '--max-runtime', '20000', '--input-sqf', path], capture_output=True, timeout=40)
            out = p.stdout.decode('utf-8', 'replace') + p.stderr.decode('utf-8', 'replace')
        except subprocess.TimeoutExpired:
            return True, '%s: `%s` did not return within 40 s' % (name, code), code
        finally:
            os.unlink(path)
        got = [l for l in out.split('\n') if 'RES' in l and 'DIAG_LOG' in l]
        norm = lambda x: x.replace(' ', '').replace('"', '')
        if not got or ('RES,' + norm(want) + ']') not in norm(got[0]):
            return True, '%s: `%s` gave %s, expected %s' % (name, code, got[0].strip()[-100:] if got else 'no result: ' + out[-200:].replace('\n', ' | '), want), code
    return False, '%d programs on the real code: all as the reference semantics says' % len(CASES), None
