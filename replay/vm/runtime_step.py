"""Native witness search for C19 / C12 (runtime::execute): builds libsqfvm from the same scratch build as sqfvm, compiles
replay/drivers/runtime_step.cpp against it and runs control-action sequences on small scripts; a crash, a hang or a broken
oracle is the witness."""
import os, subprocess, re
ROOT = os.path.dirname(os.path.dirname(os.path.dirname(os.path.abspath(__file__))))

LINES3 = 'a = 1; b = 2; c = 3;\nd = 4;'
SCENARIOS = [
    # (name, code or '-', create_empty_context, actions, oracle)
    ('fresh VM, every action', '-', False, [[a] for a in (1, 2, 3, 4, 5, 6, 7)], None),
    ('context without frame', '-', True, [[5], [6], [4, 5], [4, 6], [5, 6, 4, 1], [3, 6], [3, 5]], None),
    ('line step over three statements on one line', LINES3, False, [[5] * 6], 'line'),
    ('line step over call {}', 'a = 1; call {}; b = 2;\nc = 3', False, [[5] * 6], None),
    ('assembly steps', LINES3, False, [[4] * 14], 'asm'),
    ('abort on a halted VM discards all scripts', LINES3, False, [[4, 3, 1], [5, 3, 4]], 'abort'),
]

def build(exe):
    d = os.path.dirname(exe)
    p = subprocess.run('cmake --build %s --target libsqfvm -j16 2>&1 | tail -3' % d, shell=True, capture_output=True, timeout=1500)
    so = os.path.join(d, 'libsqfvm.so')
    if not os.path.exists(so): return None, 'libsqfvm could not be built: ' + p.stdout.decode()[-300:]
    drv = os.path.join(d, 'drv_runtime_step')
    p = subprocess.run(['g++', '-std=c++17', '-O1', '-g', '-w', '-I/repo/src', os.path.join(ROOT, 'replay/drivers/runtime_step.cpp'), '-o', drv,
                        '-L' + d, '-lsqfvm', '-Wl,-rpath,' + d, '-lpthread'], capture_output=True)
    if p.returncode != 0: return None, 'driver build failed: ' + p.stderr.decode()[-600:]
    return drv, ''

def oracle(kind, rows):
    """rows: list of (action, result, state, vars) after each action"""
    if kind == 'line':
        for (a, r, st, v) in rows:
            if ('a' in v) != ('c' in v): return 'after a line step a, b, c (one source line) are not all set or all unset: %s' % v
    if kind == 'asm':
        seen = 0
        for (a, r, st, v) in rows:
            n = len(v)
            if n > seen + 1: return 'one assembly step assigned %d variables' % (n - seen)
            seen = n
    if kind == 'abort':
        for i, (a, r, st, v) in enumerate(rows):
            if a == 3 and i > 0 and rows[i - 1][2] in (1, 3):
                if r != 0 or st != 0: return 'abort on a halted VM returned %d, state %d' % (r, st)
    return None

def search(exe):
    drv, why = build(exe)
    if drv is None: return False, why, None
    tried = 0
    for (name, code, ctx, seqs, orc) in SCENARIOS:
        for seq in seqs:
            tried += 1
            args = [drv, code if not ctx else '+'] + [str(a) for a in seq]
            try:
                p = subprocess.run(args, capture_output=True, timeout=20)
            except subprocess.TimeoutExpired:
                return True, '%s: actions %s: no return within 20 s' % (name, seq), {'code': code, 'actions': seq}
            out = p.stdout.decode('utf-8', 'replace')
            if p.returncode != 0:
                return True, '%s: actions %s: driver died with status %d after: %s' % (name, seq, p.returncode, out[-200:].replace('\n', ' | ')), {'code': code, 'actions': seq}
            rows = []
            for l in out.split('\n'):
                m = re.match(r"action (\d+) result=(-?\d+) state=(\d+)(.*)", l)
                if m: rows.append((int(m.group(1)), int(m.group(2)), int(m.group(3)), dict(x.split('=', 1) for x in m.group(4).split())))
            bad = oracle(orc, rows) if orc else None
            if bad: return True, '%s: actions %s: %s' % (name, seq, bad), {'code': code, 'actions': seq}
    return False, '%d action sequences on the real code: no crash, hang or broken oracle' % tried, None
