"""VM-level witness search for C08 (`set`): small programs with the documented result, run on a sqfvm built from the current tree."""
import subprocess, tempfile, os
CASES = [
    ('set stores the value', 'a = [1,2,3]; a set [1, 9]; a', '[1,9,3]'),
    ('set grows with nil', 'a = [1]; a set [3, 7]; a', '[1,nil,nil,7]'),
    ('set grows exactly to index + 1', 'a = []; a set [2, 0]; count a', '3'),
    ('negative index leaves the array unchanged', 'a = [1,2]; { a set [-1, 5] } except__ { }; a', '[1,2]'),
    ('wrong argument shape leaves the array unchanged', 'a = [1,2]; { a set [0] } except__ { }; a', '[1,2]'),
    ('non-number index leaves the array unchanged', 'a = [1,2]; { a set ["x", 5] } except__ { }; a', '[1,2]'),
    ('refused recursive element leaves the array as it was', 'a = [1]; { a set [5, a] } except__ { }; a', '[1]'),
    ('refused recursive element inside bounds restores the element', 'a = [1,2]; { a set [1, a] } except__ { }; a', '[1,2]'),
    ('append adds the elements', 'a = [1]; a append [2,3]; a', '[1,2,3]'),
    ('append of the array itself is refused, array as it was', 'a = [1]; { a append [a] } except__ { }; count a', '1'),
    ('append of an array that contains the array is refused', 'a = [1]; b = [a]; { a append [b] } except__ { }; count a', '1'),
    ('a shared reference sees the change', 'a = [1]; b = a; a set [0, 4]; b', '[4]'),
]
def search(sqfvm):
    for (name, code, want) in CASES:
        with tempfile.NamedTemporaryFile('w', suffix='.sqf', delete=False) as f:
            f.write('private _r = call { %s }; diag_log ["RES", str _r];' % code); path = f.name
        try:
            p = subprocess.run([sqfvm, '-a', '--no-execute-print', '--no-load-executable-dir', '--max-runtime', '5000', '--input-sqf', path], capture_output=True, timeout=30)
            out = p.stdout.decode('utf-8', 'replace') + p.stderr.decode('utf-8', 'replace')
        except subprocess.TimeoutExpired:
            return True, '%s: `%s` did not return within 30 s' % (name, code), code
        finally:
            os.unlink(path)
        got = [l for l in out.split('\n') if 'RES' in l and 'DIAG_LOG' in l]
        norm = lambda x: x.replace(' ', '').replace('"', '').replace('any', 'nil').replace('<null>', 'nil')
        if not got or ('RES,' + norm(want) + ']') not in norm(got[0]):
            return True, '%s: `%s` gave %s, expected %s' % (name, code, got[0].strip()[-100:] if got else 'no result: ' + out[-200:], want), code
    return False, '%d programs on the real code: all as documented' % len(CASES), None
