"""VM-level witness search for the `while` exit behaviour (C02 / C11): programs with the reference result, run on a sqfvm built
from the current tree."""
import subprocess, tempfile, os
CASES = [
    ('body runs while the condition is true', 'private _i = 0; private _r = []; while { _i < 3 } do { _r pushBack _i; _i = _i + 1 }; _r', '[0,1,2]'),
    ('false condition never runs the body', 'private _r = 0; while { false } do { _r = 1 }; _r', '0'),
    ('empty body: condition is re-evaluated until false', 'private _i = 0; while { _i = _i + 1; _i < 5 } do { }; _i', '5'),
    ('cap with a body (unscheduled)', 'private _i = 0; while { true } do { _i = _i + 1 }; _i', '10000'),
    ('cap with an empty body (unscheduled)', 'private _i = 0; while { _i = _i + 1; true } do { }; _i <= 10001', 'true'),
    ('statements after the loop run', 'private _i = 0; while { _i < 2 } do { _i = _i + 1 }; _i + 40', '42'),
]
def search(sqfvm):
    for (name, code, want) in CASES:
        with tempfile.NamedTemporaryFile('w', suffix='.sqf', delete=False) as f:
            f.write('private _res = call { %s }; diag_log ["RES", str _res];' % code); path = f.name
        try:
            p = subprocess.run([sqfvm, '-a', '--no-execute-print', '--no-load-executable-dir', '--max-runtime', '20000', '--input-sqf', path], capture_output=True, timeout=40)
            out = p.stdout.decode('utf-8', 'replace') + p.stderr.decode('utf-8', 'replace')
        except subprocess.TimeoutExpired:
            return True, '%s: `%s` did not return within 40 s' % (name, code), code
        finally:
            os.unlink(path)
        got = [l for l in out.split('\n') if 'RES' in l and 'DIAG_LOG' in l]
        norm = lambda x: x.replace(' ', '').replace('"', '')
        if not got or ('RES,' + norm(want) + ']') not in norm(got[0]):
            return True, '%s: `%s` gave %s, expected %s' % (name, code, got[0].strip()[-100:] if got else 'no result: ' + out[-200:].replace('\n', ' | '), want), code
    return False, '%d programs on the real code: all as the reference semantics says' % len(CASES), None
