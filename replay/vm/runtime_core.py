"""VM-level witness search for the interpreter loop (C04 / C05 / C11): small programs with the result the reference semantics
gives, run on a sqfvm built from /repo's current tree.  A different result, a hang or a crash is the witness."""
import subprocess, tempfile, os, ctypes, sys

# (name, code, expected diag_log payload)
C05 = [
    ('value of call in array', '[1, call {2; 3}, 4]', '[1,3,4]'),
    ('if-then value in array', '[0, if (true) then {1; 2}, 5]', '[0,2,5]'),
    ('empty call contributes nil', 'count [1, call {}, 4]', '3'),
    ('exitWith inside call inside array', '[1, call { 2 + (if (true) exitWith { 7 }); 8 }, 3]', '[1,7,3]'),
    ('try/catch value in array', '[1, try { call { throw 5 } } catch { _exception + 1 }, 3]', '[1,6,3]'),
    ('try/catch value as operand', '10 + (try { if (true) then { throw 5 }; 9 } catch { _exception + 1 })', '16'),
    ('forEach result in array', '[1, { _x } forEach [7, 8], 2]', '[1,8,2]'),
    ('nested calls keep pending operands', '[1, [2, call { 3; call { 4; 5 } }, 6], 7]', '[1,[2,5,6],7]'),
    ('while value discarded', '[1, call { private _i = 0; while { _i < 3 } do { _i = _i + 1; 9 }; _i }, 2]', '[1,3,2]'),
]
# C04: statements after an unhandled error do not run; a handled error continues after the handler construct
C04 = [
    ('error stops the script', 'r = 1; r = r + "a"; r = 5;', 'r', '1'),
    ('except__ takes over once, execution continues behind it', 'r = []; { r pushBack 1; 1 + "a"; r pushBack 2 } except__ { r pushBack 3 }; r pushBack 4;', 'r', '[1,3,4]'),
]

def run(sqfvm, code, timeout=20, max_runtime=5000):
    with tempfile.NamedTemporaryFile('w', suffix='.sqf', delete=False) as f:
        f.write(code); path = f.name
    try:
        p = subprocess.run([sqfvm, '-a', '--no-execute-print', '--no-load-executable-dir', '--max-runtime', str(max_runtime), '--input-sqf', path], capture_output=True, timeout=timeout)
        return p.returncode, p.stdout.decode('utf-8', 'replace') + p.stderr.decode('utf-8', 'replace')
    finally:
        os.unlink(path)

def search(sqfvm):
    tried = 0
    for (name, code, want) in C05:
        tried += 1
        try:
            rc, out = run(sqfvm, 'diag_log ["RES", %s];' % code)
        except subprocess.TimeoutExpired:
            return True, '%s: `%s` did not return within 20 s' % (name, code), code
        got = [l for l in out.split('\n') if '[RES,' in l.replace('"', '')]
        if not got or ('[RES,%s]' % want) not in got[0].replace(' ', '').replace('"', ''):
            return True, '%s: `%s` gave %s, expected %s' % (name, code, (got[0].strip()[-120:] if got else 'no result (rc %d): %s' % (rc, out[-200:])), want), code
    for (name, code, var, want) in C04:
        tried += 1
        # second run on the same process is not possible through -a; the value is read by a trailing statement in an except__ wrapper
        prog = '{ %s } except__ { }; diag_log ["RES", %s];' % (code, var) if 'except__' not in code else '%s diag_log ["RES", %s];' % (code, var)
        try:
            rc, out = run(sqfvm, prog)
        except subprocess.TimeoutExpired:
            return True, '%s: did not return within 20 s' % name, prog
        got = [l for l in out.split('\n') if '[RES,' in l.replace('"', '')]
        if not got or ('[RES,%s]' % want) not in got[0].replace(' ', '').replace('"', ''):
            return True, '%s: `%s` left %s = %s, expected %s' % (name, code, var, (got[0].strip()[-100:] if got else 'no result'), want), prog
    # C04 (leak into the next run) and C11 (budget from run start): through the C API on libsqfvm.so from the same build
    d = os.path.dirname(sqfvm)
    subprocess.run('cmake --build %s --target libsqfvm -j16 >/dev/null 2>&1' % d, shell=True, timeout=1500)
    so = os.path.join(d, 'libsqfvm.so')
    if os.path.exists(so):
        seq = os.path.join(os.path.dirname(os.path.dirname(os.path.abspath(__file__))), 'api', 'sequence.py')
        for (name, mr, calls, idx, bad) in [
            ('an unhandled error does not fail the next run', 5, ['s:1 + "a"', 's:1+1'], 1, '-> -6'),
            ('an error recovered by try/catch does not fail the next run', 5, ['s:try { 1 + [] } catch { 0 }', 's:1+1'], 1, '-> -6'),
        ]:
            tried += 1
            p = subprocess.run([sys.executable, seq, so, str(mr)] + calls, capture_output=True, timeout=60)
            lines = [l for l in p.stdout.decode('utf-8', 'replace').split('\n') if '->' in l]
            if len(lines) > idx and bad in lines[idx]:
                return True, '%s: %s' % (name, lines[idx][:200]), calls
    return False, '%d programs / call sequences on the real code: all as the reference semantics says' % tried, None
