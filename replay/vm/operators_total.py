"""VM-level witness search for C09 (`resize`, `deleteAt`, `deleteRange`, `select`, `format`, `sort`): operands of every kind, run on a sqfvm built from the current tree; a crash
(non-zero exit without a result line), a hang or a wrong result is the witness."""
import subprocess, tempfile, os
CASES = [
    ('negative size is rejected, array unchanged', 'a = [1,2]; { a resize -1 } except__ { }; a', '[1,2]'),
    ('fractional negative size', 'a = [1,2]; { a resize -0.5 } except__ { }; a', '[1,2]'),
    ('NaN size is rejected', 'a = [1,2]; { a resize (sqrt -1) } except__ { }; count a', '2'),
    ('grow fills with nil', 'a = [1]; a resize 3; a', '[1,nil,nil]'),
    ('shrink keeps the prefix', 'a = [1,2,3]; a resize 1; a', '[1]'),
    ('resize to zero', 'a = [1,2,3]; a resize 0; a', '[]'),
    ('deleteRange removes the range', 'a = [1,2,3,4]; a deleteRange [1, 2]; a', '[1,4]'),
    ('deleteRange behind the end deletes nothing', 'a = [1,2]; a deleteRange [5, 6]; a', '[1,2]'),
    ('deleteRange on an empty array', 'a = []; a deleteRange [0, 1]; a', '[]'),
    ('deleteRange clamps the end', 'a = [1,2,3]; a deleteRange [1, 9]; a', '[1]'),
    ('deleteAt removes exactly that element', 'a = [1,2,3]; a deleteAt 1; a', '[1,3]'),
    ('deleteAt returns the element', 'a = [1,2,3]; a deleteAt 2', '3'),
    ('deleteAt behind the end leaves the array unchanged', 'a = [1,2,3]; a deleteAt 3; a', '[1,2,3]'),
    ('deleteAt with a negative index leaves the array unchanged', 'a = [1,2,3]; a deleteAt -1; a', '[1,2,3]'),
    ('deleteAt with a huge index leaves the array unchanged', 'a = [1,2,3]; a deleteAt 1e10; a', '[1,2,3]'),
    ('select copies the range', '[1,2,3,4] select [1, 2]', '[2,3]'),
    ('select clamps the length', '[1,2,3,4] select [2, 9]', '[3,4]'),
    ('select at the end gives an empty array', '[1,2,3,4] select [4, 2]', '[]'),
    ('select behind the end gives an empty array', '[1,2,3] select [200, 2e9]', '[]'),
    ('select with a negative length gives an empty array', '[1,2,3] select [1, -1]', '[]'),
    ('select with a length near 2^31 does not overflow', 'a = []; a resize 200; count (a select [150, 2147483520])', '50'),
    ('select with one parameter', 'count ([1,2,3] select [1])', '0'),
    ('select with a parameter of the wrong type', '{ [1,2,3] select [1, "x"] } except__ { }; 7', '7'),
    ('select index', '[1,2,3] select 1', '2'),
    ('select rounds the index', '[1,2,3] select 1.6', '3'),
    ('select at the size gives nil', 'isNil { [1,2,3] select 3 }', 'true'),
    ('select with a negative index is refused', '{ [1,2,3] select -1 } except__ { }; 7', '7'),
    ('select behind the end is refused', '{ [1,2,3] select 4 } except__ { }; 7', '7'),
    ('select true', '[1,2] select true', '2'),
    ('select false', '[1,2] select false', '1'),
    ('select true on a short array', '{ [1] select true } except__ { }; 7', '7'),
    ('select false on an empty array', '{ [] select false } except__ { }; 7', '7'),
    ('format substitutes', 'format ["a%1b%2c", 7, "x"]', 'a7bxc'),
    ('format with a placeholder behind the arguments', 'format ["a%3b", 7]', 'ab'),
    ('format with more digits than an int holds', 'format ["a%99999999999b", 7]', 'ab'),
    ('format with 2^31 as placeholder', 'format ["a%2147483648b", 7]', 'ab'),
    ('format ending in a percent sign', 'format ["a%", 7]', 'a'),
    ('format with a non-digit placeholder', 'format ["a%xb", 7]', 'ab'),
    ('format of an empty array', '{ format [] } except__ { }; 7', '7'),
    ('sort descending on 200 sub-arrays', 'a = []; for "_i" from 1 to 200 do { a pushBack [_i] }; a sort false; [count a, a select 0, a select 199]', '[200,[200],[1]]'),
    ('sort ascending on sub-arrays compares the elements', 'a = [[2,"b"],[1,"z"],[2,"a"]]; a sort true; a', '[[1,z],[2,a],[2,b]]'),
    ('sort descending on sub-arrays', 'a = [[2,"b"],[1,"z"],[2,"a"]]; a sort false; a', '[[2,b],[2,a],[1,z]]'),
    ('sort descending on equal sub-arrays', 'a = []; for "_i" from 1 to 100 do { a pushBack [7] }; a sort false; count a', '100'),
    ('sort numbers descending', 'a = [3,1,2]; a sort false; a', '[3,2,1]'),
    ('sort strings ascending', 'a = ["b","a","c"]; a sort true; a', '[a,b,c]'),
    ('sort refuses sub-arrays of different structure', 'a = [[1,"a"],[2]]; { a sort true } except__ { }; count a', '2'),
    ('sort refuses mixed types', 'a = [1,"a"]; { a sort true } except__ { }; count a', '2'),
    ('sort descending on 300 numbers with duplicates', 'a = []; for "_i" from 1 to 300 do { a pushBack (_i % 3) }; a sort false; [count a, a select 0, a select 150, a select 299]', '[300,2,1,0]'),
    ('sort descending on 300 equal strings', 'a = []; for "_i" from 1 to 300 do { a pushBack "x" }; a sort false; count a', '300'),
    ('sort ascending on 300 numbers with duplicates', 'a = []; for "_i" from 1 to 300 do { a pushBack (_i % 3) }; a sort true; [a select 0, a select 299]', '[0,2]'),
    ('selectRandom of an empty array gives nil', 'isNil { selectRandom [] }', 'true'),
    ('selectRandom of one element', 'selectRandom [5]', '5'),
    ('group variables read back', 'g = createGroup west; g setVariable ["a", 1]; [g getVariable "a", g getVariable ["b", 5], isNil { g getVariable "zz" }]', '[1,5,true]'),
    ('getVariable on the null group gives nil', '{ grpNull getVariable "a" } except__ { }; 7', '7'),
    ('setVariable on the null group is refused', '{ grpNull setVariable ["a", 1] } except__ { }; 7', '7'),
    ('group getVariable with bad parameters', 'g = createGroup west; { g getVariable [1, 2] } except__ { }; { g getVariable ["a"] } except__ { }; 7', '7'),
    ('setPos moves the object', 'o = "C" createVehicle [0,0,0]; o setPos [1,2,3]; getPos o', '[1,2,3]'),
    ('setPos with an empty position is refused', 'o = "C" createVehicle [0,0,0]; { o setPos [] } except__ { }; getPos o', '[0,0,0]'),
    ('setPos with a short position is refused', 'o = "C" createVehicle [0,0,0]; { o setPos [1,2] } except__ { }; getPos o', '[0,0,0]'),
    ('setPos with a position of strings is refused', 'o = "C" createVehicle [0,0,0]; { o setPos ["a","b","c"] } except__ { }; getPos o', '[0,0,0]'),
    ('doMove on the null object is reported', 'objNull doMove [1,2,3]; 7', '7'),
    ('setPos on the null object is reported', 'objNull setPos [1,2,3]; 7', '7'),
    ('setVelocity with a short velocity is refused', 'o = "C" createVehicle [0,0,0]; { o setVelocity [1,2] } except__ { }; velocity o', '[0,0,0]'),
    ('setVelocity sets the velocity', 'o = "C" createVehicle [0,0,0]; o setVelocity [1,2,3]; velocity o', '[1,2,3]'),
    ('side of an object without a group', 'o = "C" createVehicle [0,0,0]; str (side o)', 'EMPTY'),
    ('units of an object without a group', 'o = "C" createVehicle [0,0,0]; { units o } except__ { }; 7', '7'),
    ('crew of an empty vehicle', 'o = "C" createVehicle [0,0,0]; crew o', '[]'),
    ('vehicle of a vehicle without parent', 'o = "C" createVehicle [0,0,0]; (vehicle o) isEqualTo o', 'true'),
]
def search(sqfvm):
    for (name, code, want) in CASES:
        with tempfile.NamedTemporaryFile('w', suffix='.sqf', delete=False) as f:
            f.write('private _r = call { %s }; diag_log ["RES", str _r];' % code); path = f.name
        try:
            p = subprocess.run([sqfvm, '-a', '--no-execute-print', '--no-load-executable-dir', '--max-runtime', '5000', '--input-sqf', path], capture_output=True, timeout=30)
            out = p.stdout.decode('utf-8', 'replace') + p.stderr.decode('utf-8', 'replace')
        except subprocess.TimeoutExpired:
            return True, '%s: `%s` did not return within 30 s' % (name, code), code
        finally:
            os.unlink(path)
        got = [l for l in out.split('\n') if 'RES' in l and 'DIAG_LOG' in l]
        norm = lambda x: x.replace(' ', '').replace('"', '').replace('any', 'nil').replace('<null>', 'nil')
        if not got:
            return True, '%s: `%s`: the process ended without a result (exit %d): %s' % (name, code, p.returncode, out[-160:].replace('\n', ' | ')), code
        if ('RES,' + norm(want) + ']') not in norm(got[0]):
            return True, '%s: `%s` gave %s, expected %s' % (name, code, got[0].strip()[-100:], want), code
    return False, '%d programs on the real code: all as documented' % len(CASES), None
