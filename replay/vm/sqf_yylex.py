"""VM-level witness search for C01: an unparenthesised expression must evaluate like its documented reading
(binary operators group by precedence level, left-associative).  Levels (BI wiki / registration in src/operators):
1 ||  2 &&  3 == != < > <= >= 4 named binary operators (select, ...)  5 else  6 + - min max  7 * / % mod atan2  8 ^"""
import subprocess, tempfile, os
CASES = [
 ('2 min 3 + 4', '(2 min 3) + 4'), ('1 max 2 - 3', '(1 max 2) - 3'), ('8 - 1 max 2 - 3', '((8 - 1) max 2) - 3'),
 ('2 + 3 min 1', '(2 + 3) min 1'), ('2 min 3 * 4', '2 min (3 * 4)'), ('10 - 4 - 3', '(10 - 4) - 3'),
 ('2 * 3 + 4 * 5', '(2 * 3) + (4 * 5)'), ('2 ^ 3 * 2', '(2 ^ 3) * 2'), ('7 mod 4 + 1', '(7 mod 4) + 1'),
 ('1 + 7 mod 4', '1 + (7 mod 4)'), ('[1,2,3] select 1 + 1', '[1,2,3] select (1 + 1)'), ('1 + 1 == 2', '(1 + 1) == 2'),
 ('true || false && false', 'true || (false && false)'), ('1 < 2 && 2 < 3', '(1 < 2) && (2 < 3)'),
 ('3 max 1 min 2', '(3 max 1) min 2'), ('100 / 10 / 5', '(100 / 10) / 5'), ('- 2 + 5', '(- 2) + 5'), ('10 - -3 * 2', '10 - ((-3) * 2)'),
 ('[5,6,7] select 0 max 1', '[5,6,7] select (0 max 1)'), ('2 atan2 1 + 1', '(2 atan2 1) + 1'),
]
def search(sqfvm):
    lines = ['private _bad = [];']
    for a, b in CASES:
        lines.append('if !((%s) isEqualTo (%s)) then { _bad pushBack "%s" };' % (a, b, a))
    lines.append('diag_log ["C01RESULT", count _bad, _bad];')
    with tempfile.NamedTemporaryFile('w', suffix='.sqf', delete=False) as f:
        f.write('\n'.join(lines)); path = f.name
    try:
        p = subprocess.run([sqfvm, '-a', '--no-execute-print', '--no-load-executable-dir', '--max-runtime', '20000', '--input-sqf', path], capture_output=True, timeout=60)
    finally:
        os.unlink(path)
    out = p.stdout.decode('utf-8', 'replace') + p.stderr.decode('utf-8', 'replace')
    for l in out.split('\n'):
        if 'C01RESULT' in l:
            bad = 'C01RESULT,0,' not in l.replace(' ', '').replace('"', '')
            return bad, l.strip()[:600], '\n'.join(lines)
    return False, 'no result line: ' + out[-400:], ''
