// native replay for C19: loads an SQF text into a VM built from the real sources and applies a sequence of control actions,
// printing result, state and the values of the global variables a, b, c, d after each action.
// usage: drv_step <sqf text | - (nothing loaded) | + (a context without frame)> <action number>...     actions: 1 start 2 stop 3 abort 4 assembly_step 5 line_step 6 leave_scope
#include "runtime/runtime.h"
#include "runtime/logging.h"
#include "runtime/d_string.h"
#include "fileio/default.h"
#include "parser/config/config_parser.hpp"
#include "parser/sqf/sqf_parser.hpp"
#include "parser/preprocessor/default.h"
#include "operators/ops.h"
#include <iostream>
using namespace std::string_view_literals;
class L : public Logger { public: L() : Logger() {} void log(const LogMessageBase& m) override { std::cerr << "log: " << m.formatMessage() << "\n"; } };
int main(int argc, char** argv) {
    L l; sqf::runtime::runtime::runtime_conf conf{};
    sqf::runtime::runtime rt(l, conf);
    rt.fileio(std::make_unique<sqf::fileio::impl_default>(l));
    rt.parser_config(std::make_unique<sqf::parser::config::parser>(l));
    rt.parser_preprocessor(std::make_unique<sqf::parser::preprocessor::impl_default>(l));
    rt.parser_sqf(std::make_unique<sqf::parser::sqf::parser>(l));
    sqf::operators::ops(rt);
    std::string code = argv[1];
    if (code == "+") { rt.context_create(); }
    else if (code != "-") {
        auto pp = rt.parser_preprocessor().preprocess(rt, code, { "drv"sv, {} });
        if (!pp.has_value()) { std::cerr << "pp failed\n"; return 2; }
        auto set = rt.parser_sqf().parse(rt, *pp, { "drv"sv, {} });
        if (!set.has_value()) { std::cerr << "parse failed\n"; return 2; }
        auto ctx = rt.context_create().lock();
        ctx->push_frame({ rt.default_value_scope(), set.value() });
    }
    for (int i = 2; i < argc; i++) {
        int a = atoi(argv[i]);
        auto r = rt.execute((sqf::runtime::runtime::action)a);
        std::cout << "action " << a << " result=" << (int)r << " state=" << (int)rt.runtime_state();
        for (auto name : { "a", "b", "c", "d" }) {
            auto ns = rt.default_value_scope();
            if (ns->contains(name)) std::cout << " " << name << "=" << ns->at(name).to_string_sqf(); 
        }
        std::cout << std::endl;
    }
    return 0;
}
