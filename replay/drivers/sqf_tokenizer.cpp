// Native replay / witness-search driver for the real sqf::parser::sqf::tokenizer (or the config one with -DCONFIG_TOK).
// Built from /repo's current tree with ASan+UBSan.  The input lives in an exact-size heap block (n bytes + NUL, as a
// std::string has) so that reads outside it are caught.
//   driver --input FILE     : exit 0 ok, 3 hang (alarm), 4 no progress / walked past the end, other: sanitizer abort
//   driver --search OUTFILE : enumerate short inputs over an alphabet of lexically interesting bytes; on the first
//                             failing input write it to OUTFILE and exit 1; exit 0 if none fails.
#include <cstdio>
#include <cstdlib>
#include <cstring>
#include <csignal>
#include <string>
#include <vector>
#include <unistd.h>
#ifdef CONFIG_TOK
#include "parser/config/tokenizer.hpp"
using tokenizer = sqf::parser::config::tokenizer;
#else
#include "parser/sqf/tokenizer.hpp"
using tokenizer = sqf::parser::sqf::tokenizer;
#endif
static const char* g_cur = nullptr; static size_t g_cur_n = 0; static const char* g_out = nullptr;
static void dump_current(const char* why)
{
    if (g_out) { FILE* f = fopen(g_out, "wb"); if (f) { fwrite(g_cur, 1, g_cur_n, f); fclose(f); } }
    fprintf(stderr, "%s on input of %zu bytes: ", why, g_cur_n);
    for (size_t i = 0; i < g_cur_n; i++) fprintf(stderr, "%02x", (unsigned char)g_cur[i]);
    fprintf(stderr, "\n");
}
static void on_alarm(int) { dump_current("HANG"); _exit(3); }
extern "C" void __asan_on_error() { dump_current("ASAN"); }
static int run_one(const char* data, size_t n)
{
    char* buf = new char[n + 1]; memcpy(buf, data, n); buf[n] = 0;
    g_cur = data; g_cur_n = n;
    int rc = 0;
    {
        tokenizer::iterator b(buf), e(buf + n);
        try {
            tokenizer t(b, e, "replay");
            size_t count = 0;
            while (true)
            {
                auto tok = t.next();
                count++;
                if (tok.type == tokenizer::etoken::eof) break;
                if (tok.type == tokenizer::etoken::invalid) break;           // the parser stops here with a diagnostic
                if (tok.contents.data() < buf || tok.contents.data() + tok.contents.size() > buf + n) { rc = 4; break; }
                if (tok.contents.size() == 0 || count > n + 2) { rc = 4; break; }
            }
        } catch (const std::exception& ex) { rc = 5; fprintf(stderr, "EXCEPTION %s\n", ex.what()); }
    }
    delete[] buf;
    return rc;
}
int main(int argc, char** argv)
{
    signal(SIGALRM, on_alarm);
    if (argc >= 3 && !strcmp(argv[1], "--input"))
    {
        FILE* f = fopen(argv[2], "rb"); if (!f) return 9;
        std::string s; char tmp[4096]; size_t k;
        while ((k = fread(tmp, 1, sizeof tmp, f)) > 0) s.append(tmp, k);
        fclose(f);
        alarm(3);
        int rc = run_one(s.data(), s.size());
        if (rc) dump_current(rc == 5 ? "EXCEPTION" : "NO-PROGRESS/OUT-OF-RANGE");
        return rc;
    }
    if (argc >= 3 && !strcmp(argv[1], "--search"))
    {
        g_out = argv[2];
        const char alpha[] = { '"', '\'', '/', '*', '#', 'l', 'i', 'n', 'e', ' ', '\n', '0', 'x', '$', '.', 'a', '_', '\\', ';', '1', '-', '=', '<', '&', '\t', '{', '}', '[', ']', (char)0x80 };
        const size_t A = sizeof alpha; const size_t maxlen = argc >= 4 ? (size_t)atoi(argv[3]) : 4;
        std::vector<size_t> idx; std::string s;
        // fixed seeds first: the prefixes that reach the special arms
        const char* seeds[] = { "#line", "#line ", "#line 1", "#line 1 \"f\"", "#line x", "//", "/*", "/**", "/* *", "//x", "\"", "'", "\"\"", "''", "0x", "$", "1e", "1.", ".5e+", "a\"", "1 \"", "1 '", "x //", "x /*" };
        for (auto sd : seeds) { alarm(2); int rc = run_one(sd, strlen(sd)); if (rc) { dump_current(rc == 5 ? "EXCEPTION" : "NO-PROGRESS"); return 1; } }
        for (size_t len = 0; len <= maxlen; len++)
        {
            idx.assign(len, 0);
            while (true)
            {
                s.resize(len); for (size_t i = 0; i < len; i++) s[i] = alpha[idx[i]];
                alarm(2);
                int rc = run_one(s.data(), s.size());
                if (rc) { dump_current(rc == 5 ? "EXCEPTION" : "NO-PROGRESS"); return 1; }
                size_t p = 0; while (p < len && ++idx[p] == A) { idx[p] = 0; p++; }
                if (p == len) break;
            }
        }
        alarm(0);
        return 0;
    }
    fprintf(stderr, "usage: driver --input FILE | --search OUTFILE [maxlen]\n"); return 9;
}
