// Native replay / witness-search driver for the real rvutils::pbo::pbofile read path (ASan+UBSan, watchdog).
//   driver --input FILE     : FILE holds the bytes of an archive (possibly damaged). exit 0 ok, 3 hang, 4 wrong result
//   driver --search OUTFILE : reference archives packed by an independent packer, every truncation and single-byte
//                             corruption of them; first failing archive is written to OUTFILE, exit 1. exit 0 if none.
// "wrong result": an intact archive is not reported exactly (properties, entry list, entry bytes); a damaged archive is
// reported good and an entry read returns more bytes than the file holds for it, or bytes that differ from the file's.
#include <algorithm>
#include <numeric>
#include <cstdio>
#include <cstdlib>
#include <cstring>
#include <csignal>
#include <string>
#include <vector>
#include <unistd.h>
#include <sys/stat.h>
#include <dirent.h>
#include "rvutils/pbofile.hpp"
using namespace rvutils::pbo;
static std::string g_dir; static const std::string* g_cur = nullptr; static const char* g_out = nullptr;
static void dump(const char* why) {
    if (g_out && g_cur) { FILE* f = fopen(g_out, "wb"); if (f) { fwrite(g_cur->data(), 1, g_cur->size(), f); fclose(f); } }
    fprintf(stderr, "%s on archive of %zu bytes\n", why, g_cur ? g_cur->size() : 0);
}
static void on_alarm(int) { dump("HANG"); _exit(3); }
extern "C" void __asan_on_error() { dump("ASAN"); }
struct entry { std::string name; std::string data; };
static void put32(std::string& s, uint32_t v) { for (int i = 0; i < 4; i++) s.push_back((char)((v >> (8 * i)) & 0xff)); }
static std::string pack(const std::vector<std::pair<std::string, std::string>>& props, const std::vector<entry>& es) {
    std::string s;
    s.push_back('\0'); s += "sreV"; put32(s, 0); put32(s, 0); put32(s, 0); put32(s, 0);
    for (auto& p : props) { s += p.first; s.push_back('\0'); s += p.second; s.push_back('\0'); }
    s.push_back('\0');
    for (auto& e : es) { s += e.name; s.push_back('\0'); put32(s, 0); put32(s, (uint32_t)e.data.size()); put32(s, 0); put32(s, 0); put32(s, (uint32_t)e.data.size()); }
    s.push_back('\0'); for (int i = 0; i < 5; i++) put32(s, 0);
    for (auto& e : es) s += e.data;
    return s;
}
static size_t count_files() { size_t n = 0; DIR* d = opendir(g_dir.c_str()); if (!d) return 0; while (readdir(d)) n++; closedir(d); return n; }
// returns 0 ok, 4 wrong
static int run_one(const std::string& bytes, const std::vector<std::pair<std::string, std::string>>* props, const std::vector<entry>* es) {
    g_cur = &bytes;
    std::string path = g_dir + "/a.pbo";
    { FILE* f = fopen(path.c_str(), "wb"); fwrite(bytes.data(), 1, bytes.size(), f); fclose(f); }
    size_t before = count_files();
    int rc = 0;
    {
        pbofile p; p.open(path);
        if (es) { // intact: must be reported exactly
            if (!p.good()) { fprintf(stderr, "intact archive rejected\n"); rc = 4; }
            else {
                auto fs = p.files();
                if (fs.size() != es->size()) { fprintf(stderr, "entry count %zu != %zu\n", fs.size(), es->size()); rc = 4; }
                for (size_t i = 0; i < es->size() && !rc; i++) {
                    pbofile::reader r;
                    if (!p.read((*es)[i].name, r)) { fprintf(stderr, "entry %s not found\n", (*es)[i].name.c_str()); rc = 4; break; }
                    std::string buf(r.descriptor().size + 8, '#');
                    size_t n = r.read(buf.data(), (std::streamsize)buf.size());
                    if (n != (*es)[i].data.size() || buf.substr(0, n) != (*es)[i].data) { fprintf(stderr, "entry %s bytes differ (%zu read)\n", (*es)[i].name.c_str(), n); rc = 4; }
                }
                for (auto& pr : *props) { auto a = p.attribute(pr.first); if (!a.has_value() || *a != pr.second) { fprintf(stderr, "property %s wrong\n", pr.first.c_str()); rc = 4; } }
            }
        } else if (p.good()) { // damaged but accepted: whatever is exposed must be bytes of the file
            auto fs = p.files();
            size_t guard = 0;
            for (auto& fd : fs) {
                if (++guard > 64) break;
                pbofile::reader r;
                if (!p.read(fd.name, r)) continue;
                size_t want = std::min<size_t>(r.descriptor().size, 1 << 16);
                std::string buf(want + 8, '#');
                size_t n = r.read(buf.data(), (std::streamsize)want);
                if (n > want) { fprintf(stderr, "read returned %zu > requested %zu\n", n, want); rc = 4; break; }
                if (n > bytes.size()) { fprintf(stderr, "entry %s: %zu bytes reported as read from a %zu byte archive\n", fd.name.c_str(), n, bytes.size()); rc = 4; break; }
            }
        }
    }
    if (count_files() != before) { fprintf(stderr, "a file was created\n"); rc = 4; }
    return rc;
}
int main(int argc, char** argv) {
    signal(SIGALRM, on_alarm);
    char tmpl[] = "/var/tmp/sqfvm-verif-pbo-XXXXXX"; g_dir = mkdtemp(tmpl);
    int rc = 9;
    if (argc >= 3 && !strcmp(argv[1], "--input")) {
        FILE* f = fopen(argv[2], "rb"); if (!f) return 9; std::string s; char t[4096]; size_t k; while ((k = fread(t, 1, sizeof t, f)) > 0) s.append(t, k); fclose(f);
        alarm(5); rc = run_one(s, nullptr, nullptr); if (rc) dump("WRONG-RESULT");
    } else if (argc >= 3 && !strcmp(argv[1], "--search")) {
        g_out = argv[2]; rc = 0;
        std::vector<std::pair<std::vector<std::pair<std::string, std::string>>, std::vector<entry>>> refs;
        refs.push_back({ { { "prefix", "x\\y" } }, { { "a.sqf", "hello world" }, { "dir\\b.txt", std::string("\0\1\2bin\xff", 7) }, { "empty", "" } } });
        refs.push_back({ {}, { { std::string(300, 'n'), std::string(700, 'd') } } });
        refs.push_back({ { { "prefix", "p" }, { "k2", std::string(260, 'v') } }, { { "config.cpp", "class A{};" } } });
        for (auto& ref : refs) {
            std::string full = pack(ref.first, ref.second);
            alarm(5); int r = run_one(full, &ref.first, &ref.second); if (r) { dump("WRONG-RESULT(intact)"); rc = 1; break; }
            for (size_t cut = 0; cut < full.size() && !rc; cut++) { std::string s = full.substr(0, cut); alarm(5); if (run_one(s, nullptr, nullptr)) { dump("WRONG-RESULT(truncated)"); rc = 1; } }
            for (size_t pos = 0; pos < full.size() && !rc; pos += 1) { std::string s = full; s[pos] = (char)(s[pos] ^ 0xff); alarm(5); if (run_one(s, nullptr, nullptr)) { dump("WRONG-RESULT(corrupted)"); rc = 1; } }
            if (rc) break;
        }
        alarm(0);
    }
    std::string cmd = "rm -rf " + g_dir; if (system(cmd.c_str())) {}
    return rc;
}
