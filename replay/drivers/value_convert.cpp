// native replay for C09: sqf::runtime::value::data<TData, TValue>() (src/runtime/value.h) converts the number of a data object
// to an integer type with a plain cast; a number outside the range of the target type is undefined behaviour
// (-fsanitize=float-cast-overflow reports it).  Header-only: a local data type with `operator float` stands for d_scalar,
// the conversion that runs is the template of value.h.
// usage: value_convert --input <file with one number as text>   |   value_convert --search <out file> <unused>
#include "runtime/value.h"
#include "runtime/type.h"
#include <cstdio>
#include <cstdlib>
#include <cstring>
#include <string>
namespace { struct t_num : public sqf::runtime::type::extend<t_num> { t_num() : extend() {} static const std::string name() { return "NUM"; } }; }
struct num final : public sqf::runtime::data {
    float m;
    explicit num(float f) : m(f) {}
    bool do_equals(std::shared_ptr<sqf::runtime::data>, bool) const override { return false; }
    std::string to_string_sqf() const override { return "0"; }
    std::string to_string() const override { return "0"; }
    sqf::runtime::type type() const override { return t_num(); }
    std::size_t hash() const override { return 0; }
    operator float() { return m; }
};
static int convert(float f) {
    sqf::runtime::value v(std::make_shared<num>(f));
    int i = v.data<num, int>();
    size_t s = f < 0 ? 0 : 0;   // (the size_t instantiation is exercised by `resize`; covered by its own check)
    (void)s;
    return i;
}
int main(int argc, char** argv) {
    if (argc >= 3 && !strcmp(argv[1], "--input")) {
        FILE* f = fopen(argv[2], "r"); if (!f) return 2;
        char buf[64] = {0}; fread(buf, 1, 63, f); fclose(f);
        float x = (float)atof(buf);
        printf("converting %g\n", x);
        printf("-> %d\n", convert(x));
        return 0;
    }
    if (argc >= 3 && !strcmp(argv[1], "--search")) {
        const char* cands[] = { "0", "-1", "2147483520", "-2147483648", "2147483648", "1e10", "-1e10", "1e38", "nan", "inf", "-inf" };
        for (const char* c : cands) {
            FILE* f = fopen(argv[2], "w"); if (!f) return 2;
            fputs(c, f); fclose(f);
            float x = (float)atof(c);
            fprintf(stderr, "trying %s\n", c);
            convert(x);       // aborts under the sanitizer when the conversion is undefined
        }
        remove(argv[2]);
        return 0;
    }
    return 2;
}
