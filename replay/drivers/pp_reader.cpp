// Native replay / witness-search driver for the real preprocessor character reader (preprocessorfileinfo::next).
// Oracle = reference reader written from property C13: \r removed; backslash-newline removed; outside strings //... up
// to (not including) the newline and /*...*/ removed (newlines inside a block comment are kept); a double quote
// toggles the string state; everything else is delivered unchanged.
//   driver --input FILE | --search OUTFILE [maxlen]
#include <algorithm>
#include <cstdio>
#include <cstdlib>
#include <cstring>
#include <csignal>
#include <string>
#include <vector>
#include <unistd.h>
#include "parser/preprocessor/default.h"
using pfi = sqf::parser::preprocessor::impl_default::preprocessorfileinfo;
static const std::string* g_cur = nullptr; static const char* g_out = nullptr;
static void dump(const char* why) {
    if (g_out && g_cur) { FILE* f = fopen(g_out, "wb"); if (f) { fwrite(g_cur->data(), 1, g_cur->size(), f); fclose(f); } }
    fprintf(stderr, "%s on input of %zu bytes: ", why, g_cur ? g_cur->size() : 0);
    if (g_cur) for (unsigned char ch : *g_cur) fprintf(stderr, "%02x", ch);
    fprintf(stderr, "\n");
}
static void on_alarm(int) { dump("HANG"); _exit(3); }
static std::string reference(const std::string& s) {
    std::string out; bool in_string = false; size_t i = 0, n = s.size();
    auto at = [&](size_t k) -> char { return k < n ? s[k] : '\0'; };
    while (i < n) {
        char c = s[i];
        if (c == '\r') { i++; continue; }
        if (c == '\\' && (at(i + 1) == '\n' || (at(i + 1) == '\r' && at(i + 2) == '\n'))) { i += (at(i + 1) == '\n') ? 2 : 3; continue; }
        if (!in_string && c == '/' && at(i + 1) == '/') { while (i < n && s[i] != '\n') i++; continue; }
        if (!in_string && c == '/' && at(i + 1) == '*') {
            i += 2;
            while (i < n && !(s[i] == '*' && at(i + 1) == '/')) { if (s[i] == '\n') out.push_back('\n'); i++; }
            if (i < n) i += 2;
            continue;
        }
        if (c == '"') in_string = !in_string;
        out.push_back(c); i++;
    }
    return out;
}
static int run_one(const std::string& s) {
    g_cur = &s;
    sqf::runtime::fileio::pathinfo pi(std::string("a.sqf"), std::string("a.sqf"));
    pfi f(pi); f.content = s;
    std::string got; char c; size_t guard = 0;
    while ((c = f.next()) != '\0') { got.push_back(c); if (++guard > s.size() + 4) return 4; }
    if (f.off > s.size()) return 4;
    std::string want = reference(s);
    if (got != want) { fprintf(stderr, "reader delivered %zu bytes, reference %zu\n", got.size(), want.size()); return 4; }
    return 0;
}
int main(int argc, char** argv) {
    signal(SIGALRM, on_alarm);
    if (argc >= 3 && !strcmp(argv[1], "--input")) {
        FILE* f = fopen(argv[2], "rb"); if (!f) return 9; std::string s; char t[4096]; size_t k; while ((k = fread(t, 1, sizeof t, f)) > 0) s.append(t, k); fclose(f);
        alarm(3); int rc = run_one(s); if (rc) dump("WRONG-RESULT"); return rc;
    }
    if (argc >= 3 && !strcmp(argv[1], "--search")) {
        g_out = argv[2];
        const char alpha[] = { '"', '/', '*', '\\', '\n', 'a', ' ' };
        const size_t A = sizeof alpha; size_t maxlen = argc >= 4 ? (size_t)atoi(argv[3]) : 7;
        std::vector<size_t> idx; std::string s;
        for (size_t len = 0; len <= maxlen; len++) {
            idx.assign(len, 0);
            while (true) {
                s.resize(len); for (size_t i = 0; i < len; i++) s[i] = alpha[idx[i]];
                alarm(2); int rc = run_one(s); if (rc) { dump("WRONG-RESULT"); return 1; }
                size_t p = 0; while (p < len && ++idx[p] == A) { idx[p] = 0; p++; }
                if (p == len) break;
            }
        }
        alarm(0); return 0;
    }
    return 9;
}
