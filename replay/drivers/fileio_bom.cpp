// native replay for C09 ("1-byte files"): sqf::runtime::fileio::read_file_from_disk (src/runtime/fileio.cpp) sizes a buffer from the
// file and sniffs a byte order mark in it; get_bom_skip() is static, so the real translation unit is compiled into this driver
// and the public function is called on a file.  ASan reports a read behind the buffer, an invalid iterator range ends the process.
// usage: fileio_bom --input <file>   |   fileio_bom --search <out file> <unused>
#include "runtime/fileio.cpp"
#include <cstdio>
#include <cstring>
static int run(const char* path) {
    auto r = sqf::runtime::fileio::read_file_from_disk(std::string_view(path));
    printf("read %s: %s, %zu bytes after the mark\n", path, r.has_value() ? "ok" : "no file", r.has_value() ? r->size() : 0);
    return 0;
}
int main(int argc, char** argv) {
    if (argc >= 3 && !strcmp(argv[1], "--input")) return run(argv[2]);
    if (argc >= 3 && !strcmp(argv[1], "--search")) {
        // every prefix of every mark the function knows, and single bytes
        const unsigned char marks[][4] = { {0xEF,0xBB,0xBF,0}, {0xFE,0xFF,0,0}, {0xFE,0xFE,0,0}, {0x00,0x00,0xFF,0xFF}, {0xFF,0xFF,0x00,0x00},
            {0x2B,0x2F,0x76,0x38}, {0xF7,0x64,0x4C,0}, {0xDD,0x73,0x66,0x73}, {0x0E,0xFE,0xFF,0}, {0xFB,0xEE,0x28,0xFF}, {0x84,0x31,0x95,0x33}, {'x','y','z','w'} };
        for (auto& m : marks) for (size_t n = 1; n <= 4; ++n) {
            FILE* f = fopen(argv[2], "wb"); if (!f) return 2;
            fwrite(m, 1, n, f); fclose(f);
            fprintf(stderr, "trying %zu byte(s) starting with %02X\n", n, m[0]);
            run(argv[2]);        // aborts under the sanitizer on a read behind the buffer
        }
        remove(argv[2]);
        return 0;
    }
    return 2;
}
