#!/usr/bin/env python3
"""API-level replay: a sequence of sqfvm_call on ONE instance of libsqfvm.so built from the current tree.
usage: sequence.py <libsqfvm.so> <max runtime seconds> <type:code | sleep:seconds>...   prints one line per call: return code and the log messages"""
import ctypes, sys
lib = ctypes.CDLL(sys.argv[1])
CB = ctypes.CFUNCTYPE(None, ctypes.c_void_p, ctypes.c_void_p, ctypes.c_int32, ctypes.POINTER(ctypes.c_char), ctypes.c_uint32)
lib.sqfvm_create_instance.restype = ctypes.c_void_p
lib.sqfvm_create_instance.argtypes = [ctypes.c_void_p, CB, ctypes.c_float]
lib.sqfvm_destroy_instance.argtypes = [ctypes.c_void_p]
lib.sqfvm_call.restype = ctypes.c_int32
lib.sqfvm_call.argtypes = [ctypes.c_void_p, ctypes.c_void_p, ctypes.c_char, ctypes.c_char_p, ctypes.c_uint32]
sink=[]
@CB
def on_log(user, call, severity, msg, length):
    sink.append((severity, ctypes.string_at(msg, length).decode('utf-8','replace')))
vm = lib.sqfvm_create_instance(None, on_log, float(sys.argv[2]))
import time
for spec in sys.argv[3:]:
    t,_,code = spec.partition(':'); del sink[:]
    if t == 'sleep':
        time.sleep(float(code)); print(repr(spec), '-> 0 []'); continue
    raw=code.encode(); rc = lib.sqfvm_call(vm, None, t.encode(), raw, len(raw))
    print(repr(spec), '->', rc, sink)
lib.sqfvm_destroy_instance(vm)
