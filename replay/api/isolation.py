#!/usr/bin/env python3
"""API-level replay for C20 (and C18): runs a probe in a fresh VM, lets ANOTHER VM of the same process run something,
then runs the same probe in a second fresh VM and compares return codes and every logged message.
usage: isolation.py <libsqfvm.so> <type:probe> <type:other>     exit 0 identical, 1 different"""
import ctypes, sys
def main():
    lib = ctypes.CDLL(sys.argv[1])
    CB = ctypes.CFUNCTYPE(None, ctypes.c_void_p, ctypes.c_void_p, ctypes.c_int32, ctypes.POINTER(ctypes.c_char), ctypes.c_uint32)
    lib.sqfvm_create_instance.restype = ctypes.c_void_p
    lib.sqfvm_create_instance.argtypes = [ctypes.c_void_p, CB, ctypes.c_float]
    lib.sqfvm_destroy_instance.argtypes = [ctypes.c_void_p]
    lib.sqfvm_call.restype = ctypes.c_int32
    lib.sqfvm_call.argtypes = [ctypes.c_void_p, ctypes.c_void_p, ctypes.c_char, ctypes.c_char_p, ctypes.c_uint32]
    sink = []
    @CB
    def on_log(user, call, severity, msg, length):
        sink.append((severity, ctypes.string_at(msg, length).decode('utf-8', 'replace')))
    def fresh(spec):
        t, _, code = spec.partition(':')
        del sink[:]
        vm = lib.sqfvm_create_instance(None, on_log, 5.0)
        raw = code.encode()
        rc = lib.sqfvm_call(vm, None, t.encode(), raw, len(raw))
        lib.sqfvm_destroy_instance(vm)
        return rc, list(sink)
    probe, other = sys.argv[2], sys.argv[3]
    a = fresh(probe); fresh(other); b = fresh(probe)
    print('first :', a); print('second:', b)
    sys.exit(0 if a == b else 1)
main()
