#!/bin/sh
# Offline setup: verify the tools are present and byte-compile the engine. Nothing is fetched.
cd "$(dirname "$0")" || exit 1
for t in cbmc goto-cc goto-instrument clang++ g++ c++filt python3 setarch; do
  command -v $t >/dev/null 2>&1 || { echo "missing tool: $t"; exit 1; }
done
cbmc --version | head -1
python3 -m compileall -q engine || exit 1
mkdir -p .work evidence replays
echo "setup ok"
