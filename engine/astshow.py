#!/usr/bin/env python3
"""Debug helper: compact tree view of a clang JSON AST dump (one or more concatenated docs)."""
import json, sys
def docs(text):
    dec = json.JSONDecoder(); i = 0; n = len(text)
    while i < n:
        while i < n and text[i].isspace(): i += 1
        if i >= n: break
        obj, j = dec.raw_decode(text, i); yield obj; i = j
def show(n, d=0, maxd=99, out=sys.stdout):
    if d > maxd: return
    t = n.get('type', {})
    bits = [n.get('kind','?')]
    for k in ('name','opcode','value','valueCategory','castKind','isArrow','isPostfix','mangledName'):
        if k in n: bits.append(f"{k}={n[k]}")
    if t: bits.append("T=" + t.get('qualType','') + (" D=" + t['desugaredQualType'] if 'desugaredQualType' in t else ''))
    if 'referencedDecl' in n:
        r = n['referencedDecl']; bits.append(f"ref={r.get('kind')}:{r.get('name')}:{r.get('id')}:{r.get('type',{}).get('qualType')}")
    if 'referencedMemberDecl' in n: bits.append(f"mref={n['referencedMemberDecl']}")
    if 'id' in n: bits.append(n['id'])
    if n.get('isImplicit'): bits.append('implicit')
    out.write('  '*d + ' '.join(str(b) for b in bits) + '\n')
    for c in n.get('inner', []): show(c, d+1, maxd, out)
def find(n, name, kinds=None, acc=None):
    if acc is None: acc = []
    if n.get('name') == name and (kinds is None or n.get('kind') in kinds): acc.append(n)
    for c in n.get('inner', []): find(c, name, kinds, acc)
    return acc
if __name__ == '__main__':
    text = open(sys.argv[1]).read()
    name = sys.argv[2] if len(sys.argv) > 2 else None
    maxd = int(sys.argv[3]) if len(sys.argv) > 3 else 99
    for doc in docs(text):
        if name:
            for m in find(doc, name): show(m, 0, maxd)
        else: show(doc, 0, maxd)
