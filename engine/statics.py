"""Supporting static facts (not contract proofs; listed separately in evidence).

C20: exhaustive list of writable objects with static storage duration in the objects built from /repo's current tree
(nm on every object file of the sqfvm target), compared with contracts/statics_classified.json.  A symbol that matches
no entry is an unclassified process-wide mutable object: every instance in the process shares it.
"""
import os, re, json, subprocess, shutil, atexit, glob

ROOT = os.path.dirname(os.path.dirname(os.path.abspath(__file__)))
_build = {}

def scratch_build(target='sqfvm'):
    """configure + build <target> from /repo's current tree in a scratch directory outside /repo and /verif"""
    if target in _build: return _build[target]
    d = '/var/tmp/sqfvm-verif-objs-%d' % os.getpid()
    if not os.path.isdir(d):
        atexit.register(lambda: shutil.rmtree(d, ignore_errors=True))
    p = subprocess.run('cmake -G Ninja -S /repo -B %s -DCMAKE_BUILD_TYPE=RelWithDebInfo >/dev/null 2>&1 && cmake --build %s --target %s -j16 2>&1 | tail -5' % (d, d, target),
                       shell=True, capture_output=True, timeout=2400)
    ok = p.returncode == 0 and (os.path.exists(os.path.join(d, 'sqfvm')) or os.path.exists(os.path.join(d, 'libsqfvm.so')))
    _build[target] = (d if ok else None, p.stdout.decode('utf-8', 'replace')[-1500:])
    return _build[target]

IGNORE = re.compile(r"^(guard variable for |vtable for |VTT for |typeinfo |construction vtable|DW\.ref\.|\.L|__dso_handle|_GLOBAL_|__TMC_END__|completed\.|dtor_idx|object\.)")

def scan_statics():
    d, log = scratch_build('sqfvm')
    if d is None:
        return None, 'build failed: ' + log
    objs = glob.glob(os.path.join(d, 'CMakeFiles', 'sqfvm.dir', '**', '*.o'), recursive=True)
    syms = {}
    for o in objs:
        p = subprocess.run(['nm', '-C', '--defined-only', o], capture_output=True)
        for line in p.stdout.decode('utf-8', 'replace').split('\n'):
            m = re.match(r"^[0-9a-f]+ ([bBdDuU]) (.+)$", line)
            if not m: continue
            name = m.group(2)
            if IGNORE.match(name): continue
            syms.setdefault(name, set()).add(os.path.relpath(o, os.path.join(d, 'CMakeFiles', 'sqfvm.dir')))
    return syms, '%d object files' % len(objs)

def run(pid, tier, workroot):
    if pid != 'C20': return []
    facts = []
    cl = json.load(open(os.path.join(ROOT, 'contracts', 'statics_classified.json')))['entries']
    syms, info = scan_statics()
    if syms is None:
        return [{'name': 'statics.scan', 'status': 'undecided', 'detail': info}]
    unclassified = []; by_class = {}; findings = {}
    for name, objs in sorted(syms.items()):
        hit = None
        for e in cl:
            if re.search(e['pattern'], name): hit = e; break
        if hit is None:
            unclassified.append({'symbol': name, 'objects': sorted(objs)[:3]})
        else:
            by_class.setdefault(hit['class'], []).append(name)
            if hit['class'] == 'finding': findings.setdefault(hit['finding'], []).append(name)
    facts.append({'name': 'statics.scan', 'status': 'pass', 'detail': '%s, %d writable static symbols: %s' % (info, len(syms), {k: len(v) for k, v in by_class.items()})})
    for u in unclassified:
        facts.append({'name': 'statics.unclassified:' + u['symbol'], 'status': 'fail',
                      'detail': 'writable object with static storage duration that is not on the classified list (shared by every VM instance of the process): %s in %s' % (u['symbol'], ', '.join(u['objects']))})
    for fid, names in findings.items():
        facts.append({'name': 'statics.finding:' + fid, 'status': 'fail', 'detail': 'process-wide mutable state: ' + ', '.join(names)})
    return facts
