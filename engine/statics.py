"""Supporting static facts (not contract proofs; listed separately in evidence). Filled per property."""
def run(pid, tier, workroot):
    return []
