"""Unit = Translator + call resolution + whole-file emission."""
import os, re, hashlib
from cxx2c import Translator, Unsupported, sanitize, short_ns
from cxx2c_body import FnPrinter, c_string
from cxx2c_lib import Lib
from cxxtypes import T

class Hooks:
    """default hooks: no contracts"""
    def fn_contract(self, cname): return []
    def loop_contract(self, cname, k): return []
    def ghost_fields(self, record_qname): return []

class Unit(Translator):
    def __init__(self, cache_dir, opts=None):
        super().__init__(cache_dir, opts)
        self.lib = Lib(self)
        self.hooks = Hooks()
        self.redirect = {}
        self.fn_text = {}        # cname -> C text of the definition
        self.proto_only = {}     # cname -> signature (for by-contract / self-stub twins)
        self.global_text = {}
        self.call_graph = {}     # cname -> set of callee cnames
        self.throwing_fns = set()
        self.local_class_of = {}

    # ---------------------------------------------------------------- index post-processing
    def finish_loading(self):
        for n in self.fn_nodes:
            p = n.get('previousDecl')
            if p: self.redirect[p] = n['id']
        self.assign_cnames()

    def resolve_by_name(self, name, type_str=None, class_q=None, nargs=None, want_const=None):
        """fallback when node ids of two dumps do not line up: unique match on (class, name[, type / arity])"""
        cands = []
        for n in self.fn_nodes:
            if n.get('name') != name: continue
            if class_q is not None and self.fn_class_qname(n) != class_q: continue
            if type_str is not None and n.get('type', {}).get('qualType') != type_str: continue
            if nargs is not None:
                ps = self.fn_params(n)
                need = sum(1 for p in ps if not [c for c in p.get('inner', []) if c])
                if not (need <= nargs <= len(ps)): continue
            if all(x['id'] != n['id'] for x in cands): cands.append(n)
        if len(cands) > 1 and want_const is not None:
            c2 = [n for n in cands if bool(re.search(r"\)\s*const", n['type']['qualType'])) == want_const]
            if len(c2) == 1: return c2[0]
        return cands[0] if len(cands) == 1 else None

    def decl_by_name(self, name, P, obj, is_arrow, call=None, nargs=None):
        """declared-only method looked up by (class, name) when node ids of two dumps do not line up; overloads and
        instantiations of member templates are told apart by arity and by the type of the call expression"""
        ot = P.ty(obj)
        if is_arrow and ot.kind == 'ptr': ot = ot.to
        ot = ot.strip_ref()
        if ot.kind != 'named' or self.category(ot) != 'record': return None
        if not hasattr(self, '_method_decl_index'):
            idx = {}
            for d in self.decl.values():
                if d.get('kind') == 'CXXMethodDecl' and d.get('name'):
                    par = self.parent.get(d['id'])
                    if par is not None and par.get('kind') == 'FunctionTemplateDecl':
                        par = self.parent.get(par['id'])       # instantiation / pattern of a member template
                    q = self.qname_of.get(par['id']) if par else None
                    if q: idx.setdefault((q, d['name']), []).append(d)
            self._method_decl_index = idx
        c = self._method_decl_index.get((ot.name, name), [])
        if len(c) > 1 and nargs is not None:
            c = [d for d in c if len(self.fn_params(d)) == nargs] or c
        if len(c) > 1 and any('mangledName' in d for d in c):
            c = [d for d in c if 'mangledName' in d]       # instantiations / real methods rather than template patterns
        targs = getattr(self, '_call_targs', None)
        if len(c) > 1 and targs:
            # explicit template arguments as written at the call site: every one must occur in the demangled name
            def has_all(d):
                qn = self.fn_qname(d)
                for t_ in targs.split(','):
                    w = re.sub(r".*::", '', t_.strip())
                    w = {'size_t': 'unsigned long', 'std::string': 'basic_string'}.get(w, w)
                    if not re.search(r"(?<![A-Za-z0-9_])%s(?![A-Za-z0-9_])" % re.escape(w), qn): return False
                return qn.count(',') + 1 == targs.count(',') + 1 or '<' not in qn
            c2 = [d for d in c if has_all(d)]
            if c2: c = c2
        if len(c) > 1 and call is not None:
            rt = call.get('type', {}).get('qualType', '')
            def ret_of(d):
                m = re.match(r"^(.*?)\s*\(", d.get('type', {}).get('qualType', ''))
                return m.group(1).strip() if m else ''
            norm = lambda x: x.replace('const ', '').replace(' ', '')
            c2 = [d for d in c if norm(ret_of(d)) == norm(rt) or norm(ret_of(d)).endswith('::' + norm(rt)) or norm(rt).endswith('::' + norm(ret_of(d)))]
            if c2: c = c2
            # several instantiations with the same signature (is<T>()): keep the first, the name gets a suffix below
            sigs = {d.get('type', {}).get('qualType') for d in c}
            if len(sigs) == 1: c = c[:1]
        return c[0] if len(c) == 1 else None

    def _file_text(self, path):
        c = self.__dict__.setdefault('_file_text_cache', {})
        if path not in c: c[path] = open(path, errors='replace').read()
        return c[path]

    def resolve_fn(self, fid):
        seen = 0
        while fid in self.redirect and seen < 8:
            fid = self.redirect[fid]; seen += 1
        n = self.decl.get(fid)
        if n is not None and fid in self.cname_of:
            return n
        return None

    def in_repo(self, n):
        f = self.srcinfo.get(self.cname_of.get(n['id']), (None,))[0]
        if f is None:
            # loc.file is only printed when it changes; fall back to mangled name heuristics
            q = self.fn_qname(n)
            return q.startswith(('sqf::', 'rvutils::', 'dllexports::', 'anon::', '(anonymous namespace)::')) or '::' not in q
        return f.startswith('/repo/')

    # ---------------------------------------------------------------- calls
    def _callee_cname(self, P, callee):
        c = self.cname_of[callee['id']]
        if c in self.self_stub and c == P.cname:
            c2 = c + '__self'
            self.proto_only[c2] = callee
            return c2
        if c in self.by_contract:
            self.proto_only[c] = callee
        else:
            self.want_fn(callee['id'])
        self.call_graph.setdefault(P.cname, set()).add(c)
        return c

    def fn_ref(self, rid, r, P):
        n = self.resolve_fn(rid)
        if n is None:
            raise Unsupported('%s: reference to function %s which is not loaded' % (P.cname, r.get('name')))
        return self._callee_cname(P, n)

    def _wrap_ret(self, callee, text):
        rt = self.fn_ret_type(callee) if callee['kind'] not in ('CXXConstructorDecl', 'CXXDestructorDecl') else None
        if rt is not None and rt.is_ref():
            return '(*%s)' % text
        if rt is not None and getattr(rt, 'kind', None) == 'named':
            # a member typedef of a reference type (value::cref): the C function returns a pointer
            a = self.resolve_alias(rt.name)
            if a:
                try:
                    if self.tparse(a).is_ref(): return '(*%s)' % text
                except Unsupported: pass
        return text

    def call_function(self, P, n, r, obj, args):
        callee = self.resolve_fn(r['id'])
        if callee is None and r.get('name'):
            callee = self.resolve_by_name(r['name'], type_str=r.get('type', {}).get('qualType'))
        if callee is not None and self.is_translatable(callee):
            cn = self._callee_cname(P, callee)
            a = P.call_args(callee, args)
            if cn in self.throwing_fns or self.opts.get('all_calls_may_throw'): P.note_throw()
            return self._wrap_ret(callee, '%s(%s)' % (cn, ', '.join(a)))
        name = r.get('name')
        return self.lib.free_function(P, n, name, args)

    def is_translatable(self, callee):
        q = self.fn_qname(callee)
        if q.startswith(('std::', '__gnu_cxx::')): return False
        return True

    def call_method(self, P, n, mexpr, obj, mid, args):
        callee = self.resolve_fn(mid) if mid else None
        is_arrow = bool(mexpr.get('isArrow'))
        # node ids of two -ast-dump-filter dumps can collide: an id that resolves to a declaration of another name is not it
        def _same_name(d): return d is None or not d.get('name') or not mexpr.get('name') or d.get('name') == mexpr.get('name')
        if not _same_name(callee): callee = None; mid_collides = True
        else: mid_collides = False
        if callee is None and mid and mid not in self.decl:
            ot0 = P.ty(obj)
            if is_arrow and ot0.kind == 'ptr': ot0 = ot0.to
            ot0 = ot0.strip_ref()
            if ot0.kind == 'named' and self.category(ot0) == 'record':
                callee = self.resolve_by_name(mexpr['name'], class_q=ot0.name, nargs=len(args), want_const=bool(ot0.const))
        if callee is not None and self.is_translatable(callee):
            if callee.get('virtual') and not self.opts.get('devirtualize_all'):
                return self.virtual_call(P, n, callee, obj, is_arrow, args)
            cn = self._callee_cname(P, callee)
            this = P.ex(obj) if is_arrow else P.addr(obj)
            this = self.adjust_this(P, obj, is_arrow, callee, this)
            a = [this] + P.call_args(callee, args)
            if cn in self.throwing_fns or self.opts.get('all_calls_may_throw'): P.note_throw()
            return self._wrap_ret(callee, '%s(%s)' % (cn, ', '.join(a)))
        md = self.decl.get(mid) if mid else None
        if mid_collides or not _same_name(md): md = None
        if callee is None and md is None and mid:
            self._call_targs = None
            try:
                f = self.srcinfo.get(P.cname, (None,))[0]
                rg = n.get('range', {})
                if f and 'offset' in rg.get('begin', {}) and 'offset' in rg.get('end', {}):
                    txt = self._file_text(f)[rg['begin']['offset']:rg['end']['offset'] + rg['end'].get('tokLen', 1)]
                    mm = re.search(r"\b%s\s*<(.*)>\s*\([^()]*\)$" % re.escape(mexpr['name']), txt, re.S)
                    if mm: self._call_targs = mm.group(1)
            except Exception:
                pass
            md = self.decl_by_name(mexpr['name'], P, obj, is_arrow, call=n, nargs=len(args))
            if md is not None and md.get('id') in self.cname_of and any(c_.get('kind') == 'CompoundStmt' for c_ in md.get('inner', []) if c_) and self.is_translatable(md):
                # the instantiation is in the dump after all (ids of the two dumps differ): call the real function
                cn = self._callee_cname(P, md)
                this = P.ex(obj) if is_arrow else P.addr(obj)
                this = self.adjust_this(P, obj, is_arrow, md, this)
                a = [this] + P.call_args(md, args)
                if cn in self.throwing_fns or self.opts.get('all_calls_may_throw'): P.note_throw()
                return self._wrap_ret(md, '%s(%s)' % (cn, ', '.join(a)))
        if callee is None and md is not None and md.get('kind') == 'CXXMethodDecl' and self.is_translatable(md):
            # declared-only method: pure virtual (bodiless dispatcher) or defined in another translation unit (extern);
            # either way a bodiless function that must get a contract from the spec
            q = self.fn_qname(md)
            disp = ('dispatch_' if (md.get('virtual') or md.get('pure')) else 'extern_') + sanitize(short_ns(q))
            par = self.parent.get(md['id'])
            if par is not None and par.get('kind') == 'FunctionTemplateDecl' and par.get('name') == md.get('name'):
                # (the name test: node ids of two dumps can collide, the parent of an id may belong to the other dump)
                # a member function template whose instantiation is not in the dump (e.g. value::data<T>(), value::is<T>()):
                # one bodiless function per instantiation, typed after this call expression and named after the explicit
                # template arguments as written at the call site (read from the source range of the call)
                rt = n.get('type', {}).get('qualType', '')
                m_ = re.match(r"^(.*?)\s*\((.*)\)(\s*const)?\s*$", md['type']['qualType'])
                targs = None
                try:
                    f = self.srcinfo.get(P.cname, (None,))[0]
                    rg = n.get('range', {})
                    if f and 'offset' in rg.get('begin', {}) and 'offset' in rg.get('end', {}):
                        txt = self._file_text(f)[rg['begin']['offset']:rg['end']['offset'] + rg['end'].get('tokLen', 1)]
                        mm = re.search(r"\b%s\s*<(.*)>\s*\([^()]*\)$" % re.escape(mexpr['name']), txt, re.S)
                        if mm: targs = mm.group(1)
                except Exception:
                    targs = None
                if not (rt and m_ and targs):
                    raise Unsupported('%s: call of member template %s: instantiation not in the dump and template arguments not found at the call site (call type %s, candidate %s)' % (P.cname, q, rt, md.get('mangledName')))
                ot1 = P.ty(obj)
                if is_arrow and ot1.kind == 'ptr': ot1 = ot1.to
                ot1 = ot1.strip_ref()
                disp = 'extern_' + sanitize(short_ns(ot1.name + '::' + mexpr['name'])) + '__' + sanitize(targs)
                md = dict(md); md['type'] = {'qualType': '%s (%s)%s' % (rt, m_.group(2), m_.group(3) or '')}; md['_class_q'] = ot1.name
            self.virtual_dispatch[disp] = md
            self.proto_only[disp] = md
            this = P.ex(obj) if is_arrow else P.addr(obj)
            a = [this] + P.call_args(md, args)
            self.call_graph.setdefault(P.cname, set()).add(disp)
            return self._wrap_ret(md, '%s(%s)' % (disp, ', '.join(a)))
        ot = P.ty(obj)
        if is_arrow:
            if ot.kind == 'ptr': ot = ot.to
        cat = self.category(ot)
        name = mexpr['name']
        args = [a for a in args if a.get('kind') != 'CXXDefaultArgExpr']
        return self.lib.method(P, n, cat, ot, name, obj, is_arrow, args)

    def adjust_this(self, P, obj, is_arrow, callee, this):
        """method of a base class called on a derived object"""
        cq = self.fn_class_qname(callee)
        ot = P.ty(obj)
        if is_arrow and ot.kind == 'ptr': ot = ot.to
        ot = ot.strip_ref()
        if ot.kind == 'named' and ot.name != cq and ot.name in self.records:
            path = P.base_path(ot.name, cq)
            if path:
                return '&(%s)->%s' % (this, path[:-1])
        return this

    def virtual_call(self, P, n, callee, obj, is_arrow, args):
        cn = self.cname_of[callee['id']]
        disp = 'dispatch_' + cn
        self.virtual_dispatch[disp] = callee
        self.proto_only[disp] = callee
        this = P.ex(obj) if is_arrow else P.addr(obj)
        this = self.adjust_this(P, obj, is_arrow, callee, this)
        a = [this] + P.call_args(callee, args)
        self.call_graph.setdefault(P.cname, set()).add(disp)
        return self._wrap_ret(callee, '%s(%s)' % (disp, ', '.join(a)))

    def call_operator(self, P, n, r, args):
        if r.get('name') == 'operator()' and self.category(P.ty(args[0])) == 'stdfn':
            ft = P.ty(args[0]).strip_ref().args[0]
            ptypes = ['void *'] + [self.ctype_t(p) for p in ft.params]
            ret = self.ctype_t(ft.to)
            avals = []
            for p, a in zip(ft.params, args[1:]):
                avals.append(P.addr(a) if p.is_ref() else P.ex(a))
            f = P.ex(args[0])
            P.note_throw() if self.opts.get('all_calls_may_throw') else None
            return '((%s (*)(%s))(%s.fn))(%s.env%s)' % (ret, ', '.join(ptypes), P.paren(f), P.paren(f), ''.join(', ' + v for v in avals))
        callee = self.resolve_fn(r['id'])
        if callee is None and args and r.get('name', '').startswith('operator'):
            # node ids of two dumps do not line up: member operator looked up by (class, name, arity, constness)
            try:
                ot0 = P.ty(args[0]).strip_ref()
                if ot0.kind == 'named' and self.category(ot0) == 'record':
                    callee = self.resolve_by_name(r['name'], class_q=ot0.name, nargs=len(args) - 1, want_const=bool(ot0.const))
            except Exception:
                callee = None
        if callee is not None and callee.get('isImplicit') and r.get('name') == 'operator=' and self.category(P.ty(args[0])) == 'record':
            q = P.ty(args[0]).strip_ref().name
            if not self.record_trivially_copyable(q):
                self.dropped.add('implicit copy assignment of %s is a shallow struct copy in the C model' % q)
            return '(%s = %s)' % (P.ex(args[0]), P.ex(args[1]))
        if callee is None and r.get('name') == 'operator=' and len(args) == 2 and self.category(P.ty(args[0])) == 'record':
            q = P.ty(args[0]).strip_ref().name
            user = [f for f in self.fn_nodes if f.get('name') == 'operator=' and self.fn_class_qname(f) == q and not f.get('isImplicit')]
            if not user:
                if not self.record_trivially_copyable(q):
                    self.dropped.add('implicit copy assignment of %s is a shallow struct copy in the C model' % q)
                return '(%s = %s)' % (P.ex(args[0]), P.ex(args[1]))
        if callee is not None and self.is_translatable(callee):
            cn = self._callee_cname(P, callee)
            if self.fn_is_method(callee):
                a = [P.addr(args[0])] + P.call_args(callee, args[1:])
            else:
                a = P.call_args(callee, args)
            if cn in self.throwing_fns: P.note_throw()
            return self._wrap_ret(callee, '%s(%s)' % (cn, ', '.join(a)))
        return self.lib.operator(P, n, r['name'], args)

    # ---------------------------------------------------------------- construction
    def construct(self, P, n, args):
        t = P.ty(n); cat = self.category(t)
        if cat == 'record':
            if n.get('elidable') and len(args) == 1:
                return P.ex(args[0])
            ctor = self.find_ctor(P, n, t, args)
            if ctor == 'copy':
                return P.ex(args[0])
            if ctor == 'zero':
                return '((%s){0})' % self.ctype_t(t)
            if ctor == 'defaults':
                tmp = P.new_temp(lambda nm: self.decl_text_t(t, nm))
                return '(%s = (%s){0}, %s, %s)' % (tmp, self.ctype_t(t), self.field_default_inits(P, t.strip_ref().name, '&' + tmp) or '0', tmp)
            cn = self._callee_cname(P, ctor)
            tmp = P.new_temp(lambda nm: self.decl_text_t(t, nm))
            a = ['&' + tmp] + P.call_args(ctor, args)
            return '(%s(%s), %s)' % (cn, ', '.join(a), tmp)
        if len(args) == 1 and n.get('elidable'):
            return P.ex(args[0])
        args = [a for a in args if a.get('kind') != 'CXXDefaultArgExpr']
        if cat in ('opaque', 'unknown') and self.opts.get('unknown_types_opaque'):
            self.dropped.add('construction of opaque type %s: the object is unconstrained and the constructor arguments are not evaluated' % t.strip_ref().name)
            tmp = P.new_temp(lambda nm: self.decl_text_t(t.strip_ref(), nm))
            if self.opts.get('eval_opaque_args'):
                # the object stays unconstrained, but its constructor arguments are evaluated (for their own obligations:
                # an optional dereferenced, an index, a call); an argument outside the translator is skipped and listed
                ev = []
                for a in args:
                    try: ev.append('(void)(%s)' % P.ex(a))
                    except Unsupported as e:
                        self.dropped.add('argument of the constructor of opaque type %s not evaluated: %s' % (t.strip_ref().name, str(e)[:120]))
                if ev: return '(%s, %s)' % (', '.join(ev), tmp)
            return tmp
        return self.lib.construct(P, n, t, cat, args)

    def find_ctor(self, P, n, t, args):
        """select the constructor: clang does not give the decl id in JSON for CXXConstructExpr, so match by the
        printed constructor type (ctorType) against the loaded constructors of the class."""
        self.category(t)     # canonicalises alias names in t
        q = t.strip_ref().name
        ctype_str = n.get('ctorType', {}).get('qualType')
        if len(args) == 1:
            at = P.ty(args[0]).strip_ref()
            if at.kind == 'named' and at.name == q:
                if not self.record_trivially_copyable(q):
                    self.dropped.add('copy of %s is a shallow struct copy in the C model (members that own storage are shared)' % q)
                return 'copy'
        cands = [c for c in self.fn_nodes if c['kind'] == 'CXXConstructorDecl' and self.fn_class_qname(c) in (q, self._alias_names(q))]
        if not args and (not cands or all(c.get('isImplicit') or c.get('explicitlyDefaulted') for c in cands if not self.fn_params(c))):
            if not [c for c in cands if not self.fn_params(c) and not (c.get('isImplicit') or c.get('explicitlyDefaulted'))]:
                return 'zero' if not self.record_has_default_inits(q) else 'defaults'
        for c in cands:
            if c['type']['qualType'] == ctype_str:
                return c
        if not args:
            return 'zero' if not self.record_has_default_inits(q) else self.synth_default_ctor(q)
        raise Unsupported('%s: constructor %s of %s not loaded' % (P.cname, ctype_str, q))

    def _alias_names(self, q):
        for a, t in self.aliases.items():
            if t == q: return a
        return None

    def record_trivially_copyable(self, q):
        for (name, ty, node) in self.record_fields(q):
            t = self.tparse(ty)
            if t.kind in ('ptr',): continue
            cat = self.category(t)
            if cat in ('str', 'vec', 'sstream', 'fstream'): return False
            if cat == 'record' and not self.record_trivially_copyable(t.name): return False
            if cat == 'opt' and self.category(t.args[0]) in ('str', 'vec'): return False
        return True

    def record_has_default_inits(self, q):
        for (name, ty, node) in self.record_fields(q):
            if node is not None and any(c for c in node.get('inner', []) if c and c.get('kind') not in ('FullComment',)):
                return True
            t = self.tparse(ty)
            if t.kind == 'named' and self.category(t) in ('str',):
                return True
            if t.kind == 'named' and self.category(t) == 'record' and self.record_has_default_inits(t.name):
                return True
        return False

    def synth_default_ctor(self, q):
        raise Unsupported('default construction of %s with default member initialisers (not needed so far)' % q)

    def default_ctor_call(self, P, t, addr):
        q = t.name
        cands = [c for c in self.fn_nodes if c['kind'] == 'CXXConstructorDecl' and self.fn_class_qname(c) == q and not self.fn_params(c)]
        if cands:
            cn = self._callee_cname(P, cands[0])
            return '%s(%s)' % (cn, addr)
        if self.record_has_default_inits(q):
            return self.field_default_inits(P, q, addr)
        return None

    def field_default_inits(self, P, q, addr):
        parts = []
        for (name, ty, node) in self.record_fields(q):
            t = self.tparse(ty)
            init = [c for c in (node or {}).get('inner', []) if c and c.get('kind') not in ('FullComment',)]
            if init:
                parts.append('(%s)->%s = %s' % (addr, name, P.ex(init[-1])))
            elif t.kind == 'named' and self.category(t) == 'str':
                parts.append('(%s)->%s = str_empty()' % (addr, name))
            elif t.kind == 'named' and self.category(t) in ('vec', 'opt'):
                parts.append('(%s)->%s = (%s){0}' % (addr, name, self.ctype_t(t)))
        return '(' + ', '.join(parts) + ')' if parts else None

    def construct_into(self, P, s, name, decl, out):
        """T name(args);  -> declaration + constructor call"""
        t = P.ty(s); args = [a for a in s.get('inner', []) if a]
        if s.get('elidable') and len(args) == 1:
            out.append(P.ind() + '%s = %s;' % (decl, P.ex(args[0]))); return True
        ctor = self.find_ctor(P, s, t, args)
        if ctor == 'copy':
            out.append(P.ind() + '%s = %s;' % (decl, P.ex(args[0]))); return True
        if ctor == 'zero':
            # trivial default construction: scalar members are indeterminate in C++, i.e. nondeterministic here
            if args or self.opts.get('zero_trivial_ctor'): out.append(P.ind() + '%s = {0};' % decl)
            else: out.append(P.ind() + decl + ';')
            return True
        if ctor == 'defaults':
            out.append(P.ind() + '%s = {0};' % decl)
            fi = self.field_default_inits(P, t.strip_ref().name, '&' + name)
            if fi: out.append(P.ind() + fi + ';')
            return True
        cn = self._callee_cname(P, ctor)
        a = ['&' + name] + P.call_args(ctor, args)
        out.append(P.ind() + decl + ';')
        out.append(P.ind() + '%s(%s);' % (cn, ', '.join(a)))
        return True

    def ctor_prologue(self, P, node, out):
        q = self.fn_class_qname(node)
        inits = [c for c in node.get('inner', []) if c.get('kind') == 'CXXCtorInitializer']
        named = set()
        for ci in inits:
            f = ci.get('anyInit')
            if f: named.add(f['name'])
        # fields with default member initialisers not mentioned
        for (name, ty, fnode) in self.record_fields(q):
            if name in named or fnode is None: continue
            t = self.tparse(ty)
            init = [c for c in fnode.get('inner', []) if c and c.get('kind') not in ('FullComment',)]
            if init:
                out.append(P.ind() + 'self->%s = %s;' % (name, P.ex(init[-1])))
            elif t.kind == 'named' and self.category(t) == 'str':
                out.append(P.ind() + 'self->%s = str_empty();' % name)
            elif t.kind == 'named' and self.category(t) in ('vec', 'opt'):
                out.append(P.ind() + 'self->%s = (%s){0};' % (name, self.ctype_t(t)))
        for ci in inits:
            f = ci.get('anyInit')
            e = [c for c in ci.get('inner', []) if c]
            if not f:
                ce = P.skip(e[0]) if e else None
                if ce is not None and ce.get('kind') in ('CXXConstructExpr', 'CXXTemporaryObjectExpr'):
                    bt = P.ty(ce); self.category(bt)
                    target = 'self' if bt.strip_ref().name == q else '&self->__base'
                    args = [a for a in ce.get('inner', []) if a]
                    if self.category(bt) == 'record':
                        ctor = self.find_ctor(P, ce, bt, args)
                        if ctor == 'copy':
                            out.append(P.ind() + '*(%s) = %s;' % (target, P.ex(args[0])))
                        elif ctor in ('zero', 'defaults'):
                            pass
                        else:
                            cn = self._callee_cname(P, ctor)
                            out.append(P.ind() + '%s(%s);' % (cn, ', '.join([target] + P.call_args(ctor, args))))
                        P.after_stmt(out)
                        continue
                    self.dropped.add('base-class constructor of library type in %s' % P.cname)
                    continue
                if ci.get('baseInit'):
                    self.dropped.add('base-class constructor call in %s' % P.cname)
                    continue
                P.fail(ci, 'constructor initialiser kind')
            ft = self.tparse(f['type'])
            if ft.is_ref():
                out.append(P.ind() + 'self->%s = %s;' % (f['name'], P.addr(e[0])))
            else:
                out.append(P.ind() + 'self->%s = %s;' % (f['name'], P.ex(e[0])))
            P.after_stmt(out)

    def new_expr(self, P, n):
        t = P.ty(n)  # pointer type
        et = t.to
        inner = [c for c in n.get('inner', []) if c]
        cty = self.ctype_t(et)
        tmp = P.new_temp(lambda nm: '%s *%s' % (cty, nm))
        if inner:
            return '(%s = (%s *)malloc(sizeof(%s)), *%s = %s, %s)' % (tmp, cty, cty, tmp, P.ex(inner[-1]), tmp)
        return '(%s = (%s *)malloc(sizeof(%s)), %s)' % (tmp, cty, cty, tmp)

    def name_lambdas(self, cname):
        """gives the lambdas written in function cname their C names (cname__lambdaK, document order) and closure types without
        translating cname itself; lambdas whose call operator is a template (generic lambdas) are skipped"""
        F = self.fn_by_cname[cname]
        class FakeP:
            def __init__(s): s.cname = cname; s.k = 0
            def ex(s, x): return '0'
            def addr(s, x): return '0'
            def new_temp(s, f): s.k += 1; return '__unused%d' % s.k
        P = FakeP()
        def walk(n):
            if not isinstance(n, dict): return
            if n.get('kind') == 'LambdaExpr':
                try: self.lambda_expr(P, n)
                except Unsupported: pass
                return
            for c in n.get('inner', []) or []: walk(c)
        walk(F)

    def lambda_expr(self, P, n, as_stdfn=False):
        """lambda -> static C function.  Capture-less lambdas used as plain callables yield the function designator; when a
        lambda is converted to std::function (or has captures) the function takes the closure object as first parameter and
        the value is a struct stdfn {code, environment}; captured variables are fields of the closure (pointers for
        by-reference captures)."""
        rec = [c for c in n.get('inner', []) if c.get('kind') == 'CXXRecordDecl']
        if not rec: raise Unsupported('%s: lambda without closure class' % P.cname)
        fields = [c for c in rec[0].get('inner', []) if c.get('kind') == 'FieldDecl']
        ops = [c for c in rec[0].get('inner', []) if c.get('kind') == 'CXXMethodDecl' and c.get('name') == 'operator()']
        if not ops: raise Unsupported('%s: lambda without call operator' % P.cname)
        op = ops[0]
        if not fields and not as_stdfn:
            if op['id'] not in self.cname_of:
                op['_lambda_free'] = True
                k = sum(1 for x in list(self.fn_by_cname) if x.startswith(P.cname + '__lambda'))
                cn = '%s__lambda%d' % (P.cname, k)
                self.fn_by_cname[cn] = op; self.cname_of[op['id']] = cn
                self.srcinfo[cn] = self._src_range(op)
                if not any(x['id'] == op['id'] for x in self.fn_nodes): self.fn_nodes.append(op)
            self.want_fn(op['id'])
            return self.cname_of[op['id']]
        # closure: pair the capture fields with their initialisers (children of the LambdaExpr after the class)
        inits = [c for c in n.get('inner', [])[1:] if c.get('kind') not in ('CompoundStmt',)]
        if len(inits) != len(fields): raise Unsupported('%s: lambda captures (%d fields, %d initialisers)' % (P.cname, len(fields), len(inits)))
        if op['id'] in self.cname_of:
            cn = self.cname_of[op['id']]          # already named by an earlier translation pass of the same unit
        else:
            k = sum(1 for x in list(self.fn_by_cname) if x.startswith(P.cname + '__lambda'))
            cn = '%s__lambda%d' % (P.cname, k)
        cl = 'closure_' + cn
        caps = {}; decls = []; vals = []
        for i, (f, ie) in enumerate(zip(fields, inits)):
            ft = self.tparse(f['type'])
            x = ie
            while x.get('kind') in ('ImplicitCastExpr', 'ParenExpr', 'CXXConstructExpr') and x.get('inner'): x = x['inner'][0]
            if x.get('kind') == 'CXXThisExpr':
                fname = '__this'; caps['this'] = (fname, False)
                decls.append('%s;' % self.decl_text_t(ft, fname)); vals.append('self')
                continue
            if x.get('kind') != 'DeclRefExpr': raise Unsupported('%s: lambda capture initialiser %s' % (P.cname, x.get('kind')))
            rid = x['referencedDecl']['id']; fname = 'c%d_%s' % (i, x['referencedDecl'].get('name', 'v'))
            byref = ft.is_ref()
            caps[rid] = (fname, byref)
            decls.append('%s;' % self.decl_text_t(ft, fname))
            vals.append(P.addr(x) if byref else P.ex(ie))
        gt = 'struct %s { %s };' % (cl, ' '.join(decls) if decls else 'char __empty;')
        if gt not in self.generated_types: self.generated_types.append(gt)
        op['_lambda_free'] = True; op['_lambda_env'] = (cl, caps); op['_closure_decl'] = gt
        self.fn_by_cname[cn] = op; self.cname_of[op['id']] = cn
        self.srcinfo[cn] = self._src_range(op)
        if not any(x['id'] == op['id'] for x in self.fn_nodes): self.fn_nodes.append(op)
        self.want_fn(op['id'])
        tmp = P.new_temp(lambda nm: 'struct %s %s' % (cl, nm))
        return '((struct stdfn){(void *)%s, (void *)(%s = (struct %s){%s}, &%s)})' % (cn, tmp, cl, ', '.join(vals) if vals else '0', tmp)

    EXC_CLASSES = {'std::out_of_range': 'EXC_out_of_range', 'std::invalid_argument': 'EXC_invalid_argument',
                   'std::runtime_error': 'EXC_runtime_error', 'std::bad_optional_access': 'EXC_bad_optional_access'}

    def throw_expr(self, P, n):
        inner = [c for c in n.get('inner', []) if c]
        cls = 'EXC_other'
        if inner:
            t = P.ty(inner[0]).strip_ref()
            cls = self.EXC_CLASSES.get(t.name, 'EXC_other')
        P.note_throw()
        self.dropped.add('C++ exceptions reduced to one pending-exception flag (class only; message and unwinding order dropped)')
        return '(__exc = %s)' % cls

    def try_stmt(self, P, n, out):
        inner = n['inner']
        body = inner[0]; catches = inner[1:]
        k = len(P.temps) + P.loop_no * 100 + len(out)
        lab = '__catch_%d' % k; end = '__tryend_%d' % k
        P.catch_labels.append(lab)
        P.block(body, out)
        P.catch_labels.pop()
        out.append(P.ind() + 'goto %s;' % end)
        out.append(P.ind() + '%s: ;' % lab)
        first = True
        for c in catches:
            ci = [x for x in c.get('inner', []) if x]
            var = ci[0] if ci and ci[0].get('kind') == 'VarDecl' else None
            cb = ci[-1]
            if var is None:
                condtxt = '1'
            else:
                vt = self.tparse(var['type']).strip_ref()
                cls = self.EXC_CLASSES.get(vt.name)
                if vt.name in ('std::exception',): condtxt = '1'
                elif cls is None: raise Unsupported('%s: catch of %r' % (P.cname, vt))
                else:
                    condtxt = '__exc == %s' % cls
                    if vt.name == 'std::runtime_error': condtxt = '(__exc == EXC_runtime_error)'
                    if vt.name == 'std::out_of_range': condtxt = '(__exc == EXC_out_of_range)'
            out.append(P.ind() + ('if' if first else 'else if') + ' (%s)' % condtxt)
            out.append(P.ind() + '{'); P.indent += 1
            out.append(P.ind() + '__exc = 0;')
            if cb.get('kind') == 'CompoundStmt':
                for s in cb.get('inner', []): P.stmt(s, out)
            P.indent -= 1; out.append(P.ind() + '}')
            first = False
        out.append(P.ind() + 'else { %s }' % (('goto %s;' % P.catch_labels[-1]) if P.catch_labels else P.return_default()))
        out.append(P.ind() + '%s: ;' % end)
        P.may_throw = True

    # ---------------------------------------------------------------- globals
    def use_global(self, d, prefix=''):
        gid = d['id']
        if gid in self.globals: return self.globals[gid][0]
        par = self.parent.get(gid)
        q = None
        if par is not None and par.get('id') in self.qname_of:
            q = self.qname_of[par['id']] + '::' + d['name']
        name = sanitize(short_ns(q)) if q else prefix + d['name']
        t = self.tparse(d['type'])
        decl = self.decl_text_t(t, name)
        init = [c for c in d.get('inner', []) if c and c.get('kind') not in ('FullComment',)]
        text = decl
        if init:
            try:
                P = FnPrinter(self, {'kind': 'FunctionDecl', 'id': '0x0'}, '__global_init')
                ie = P.ex(init[-1])
                if t.const and t.kind == 'named' and self.category(t) in ('scalar', 'enum') and not P.temps:
                    # constant of scalar type: a macro, so that no analysis can treat it as mutable state
                    text = '#define %s ((%s)%s)' % (name, self.ctype_t(t), ie)
                    self.globals[gid] = (name, text, d)
                    return name
                text = '%s = %s' % (decl, ie)
            except Unsupported:
                text = decl + ' /* initialiser not translated */'
        self.globals[gid] = (name, text, d)
        return name

    # ---------------------------------------------------------------- emission
    def translate(self, roots):
        """roots: list of cnames to translate (with transitive callees)"""
        for c in roots:
            gt = self.fn_by_cname[c].get('_closure_decl')
            if gt and gt not in self.generated_types: self.generated_types.append(gt)
            self.want_fn(self.fn_by_cname[c]['id'])
        i = 0
        while i < len(self.need_fns):
            fid = self.need_fns[i]; i += 1
            node = self.decl[fid] if fid in self.cname_of else self.resolve_fn(fid)
            cname = self.cname_of[node['id']]
            if cname in self.fn_text: continue
            P = FnPrinter(self, node, cname)
            self.fn_text[cname] = P.print_function()
            if P.may_throw: self.throwing_fns.add(cname)

    def emit(self, harness_text='', extra_includes=()):
        out = ['/* generated by cxx2c from /repo -- do not edit */', '#include "base.h"']
        for inc in extra_includes: out.append('#include "%s"' % inc)
        out.append('#include <stdlib.h>')
        # prototypes are computed first because they can pull in more types
        protos = []
        for cname in self.fn_text:
            protos.append(self.fn_signature(self.fn_by_cname[cname], cname) + ';')
        stubs = []
        for cname, callee in self.proto_only.items():
            sig = self.fn_signature(callee, cname)
            contract = self.hooks.fn_contract(cname[:-6] if cname.endswith('__self') else cname, stub=cname) if hasattr(self.hooks, 'stub_contract') else []
            stubs.append((cname, sig, contract))
        # enums
        for q in self.need_enums:
            cs = self.enum_constants(q)
            out.append('enum { %s };' % ', '.join('%s = %d' % (self.enum_const_cname(q, n), v) for (n, v, _) in cs))
        # records + instantiations
        body = []; done = set()
        k = 0
        while True:
            recs = list(self.need_records)
            for q in recs:
                self.emit_record(q, body, done)
            if len(self.need_records) == len(recs): break
        for q in self.need_records:
            out.append('struct %s;' % self.record_cname(q))
        # instantiation structs that records may embed by value must precede them: split macros
        types_first = []; funcs_later = []
        for key in self.need_inst:
            macro = key[0]
            if macro == 'OPAQUE_DECL': types_first.append('OPAQUE_DECL(%s)' % key[1])
            elif macro in ('VEC_DECL', 'IL_DECL', 'RITER_DECL'):
                types_first.append('%s_T(%s, %s)' % (macro[:-5], key[1], key[2]))
                funcs_later.append('%s_F(%s, %s)' % (macro[:-5], key[1], key[2]))
            elif macro == 'OPT_DECL':
                funcs_later.append('OPT_T(%s, %s)' % (key[1], key[2]))
                funcs_later.append('OPT_F(%s, %s)' % (key[1], key[2]))
            elif macro == 'UMAP_DECL':
                funcs_later.append('UMAP_T(%s, %s)' % (key[1], key[2]))
                funcs_later.append('UMAP_F(%s, %s)' % (key[1], key[2]))
                funcs_later.append('struct umap_%s_pair g_umap_other_%s;' % (key[2], key[2]))
        # OPT types embedding records by value: emit record defs, then OPT; records embedding OPT need order.
        out += types_first
        out += self.generated_types
        out += self._order_records_and_opts(body, funcs_later)
        for gid, (name, text, d) in self.globals.items():
            out.append(text if text.startswith('#define') else text + ';')
        out += protos
        for (cname, sig, contract) in stubs:
            out.append(sig)
            for l in contract: out.append('  ' + l)
            out.append(';')
        # helpers generated by the library table (e.g. find_if loops) need the lambdas' prototypes, which are above
        helper_pos = len(out)
        for cname, text in self.fn_text.items():
            out.append(text)
        out[helper_pos:helper_pos] = self.generated_helpers
        out.append(harness_text)
        return '\n'.join(out) + '\n'

    def _order_records_and_opts(self, body, funcs_later):
        """records (already dependency ordered among themselves) and OPT_T: place each OPT_T(T,M) right after the
        record it wraps if that is a record, otherwise first."""
        res = []
        opt_t = [f for f in funcs_later if f.startswith(('OPT_T(', 'UMAP_T('))]
        rest = [f for f in funcs_later if not f.startswith(('OPT_T(', 'UMAP_T('))]
        placed = set()
        def place_ready(defined_text):
            for f in opt_t:
                if f in placed: continue
                inner = f[f.index('(') + 1:].split(',')[0].strip()
                m = re.match(r"struct (\w+)$", inner)
                if m is None or m.group(1).startswith(('vec_', 'il_', 'riter_', 'opaque_')) or ('struct %s {' % m.group(1)) in defined_text:
                    res.append(f); placed.add(f)
        place_ready('')
        acc = ''
        for b in body:
            res.append(b); acc += b + '\n'
            place_ready(acc)
        for f in opt_t:
            if f not in placed: res.append(f)
        return res + rest
