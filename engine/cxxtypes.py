"""C++ type-string parser used by cxx2c.

clang prints types as strings (qualType / desugaredQualType).  We parse them into a small tree so
that the translator can map them to C types through one fixed table.
"""
import re

class TypeErrorX(Exception):
    pass

class T:
    """kind: 'named' (name, args), 'ptr' (to), 'ref' (to), 'rref' (to), 'func' (ret, params), 'array'(to, n), 'lit' (name)"""
    __slots__ = ('kind', 'name', 'args', 'to', 'const', 'n', 'params')
    def __init__(self, kind, name=None, args=None, to=None, const=False, n=None, params=None):
        self.kind = kind; self.name = name; self.args = args or []; self.to = to
        self.const = const; self.n = n; self.params = params
    def __repr__(self):
        c = 'const ' if self.const else ''
        if self.kind == 'named':
            return c + self.name + ('<' + ', '.join(map(repr, self.args)) + '>' if self.args else '')
        if self.kind == 'lit': return self.name
        if self.kind == 'ptr': return repr(self.to) + ' *' + (' const' if self.const else '')
        if self.kind == 'ref': return repr(self.to) + ' &'
        if self.kind == 'rref': return repr(self.to) + ' &&'
        if self.kind == 'array': return repr(self.to) + '[%s]' % self.n
        if self.kind == 'func': return repr(self.to) + ' (' + ', '.join(map(repr, self.params)) + ')'
        return '?'
    def strip_ref(self):
        return self.to if self.kind in ('ref', 'rref') else self
    def is_ref(self):
        return self.kind in ('ref', 'rref')

_tok = re.compile(r"\s*(::|&&|[<>,*&()\[\]]|\.\.\.|[A-Za-z_~][A-Za-z_0-9]*|-?[0-9]+[uUlL]*|'(?:\\.|[^'])+')")

BUILTIN_WORDS = {'unsigned', 'signed', 'long', 'short', 'int', 'char', 'bool', 'float', 'double', 'void',
                 'wchar_t', 'char16_t', 'char32_t', '__int128', 'size_t'}

def tokenize(s):
    out = []; i = 0
    s = s.strip()
    while i < len(s):
        m = _tok.match(s, i)
        if not m:
            raise TypeErrorX("cannot tokenize type %r at %d" % (s, i))
        out.append(m.group(1)); i = m.end()
    return out

class P:
    def __init__(self, toks, src):
        self.t = toks; self.i = 0; self.src = src
    def peek(self):
        return self.t[self.i] if self.i < len(self.t) else None
    def eat(self, x=None):
        tok = self.peek()
        if x is not None and tok != x:
            raise TypeErrorX("expected %r got %r in %r" % (x, tok, self.src))
        self.i += 1
        return tok
    def parse_type(self):
        const = False
        # leading qualifiers
        while self.peek() in ('const', 'volatile', 'typename', 'struct', 'class', 'enum', 'union'):
            if self.eat() == 'const': const = True
        tok = self.peek()
        if tok is None:
            raise TypeErrorX("empty type in %r" % self.src)
        if re.match(r"-?[0-9]", tok) or tok.startswith("'"):
            self.eat(); base = T('lit', name=tok)
        elif tok == '(':  # e.g. "(lambda at file:line:col)" or (anonymous ...)
            depth = 0; buf = []
            while True:
                x = self.eat(); buf.append(x)
                if x == '(': depth += 1
                if x == ')':
                    depth -= 1
                    if depth == 0: break
            base = T('named', name=' '.join(buf))
        elif tok in BUILTIN_WORDS:
            words = []
            while self.peek() in BUILTIN_WORDS or self.peek() in ('const',):
                w = self.eat()
                if w == 'const': const = True
                else: words.append(w)
            base = T('named', name=' '.join(words))
        else:
            base = self.parse_name()
        base.const = base.const or const
        # suffixes
        while True:
            tok = self.peek()
            if tok == 'const':
                self.eat(); base.const = True
            elif tok == 'volatile':
                self.eat()
            elif tok == '*':
                self.eat(); base = T('ptr', to=base)
            elif tok == '&':
                self.eat(); base = T('ref', to=base)
            elif tok == '&&':
                self.eat(); base = T('rref', to=base)
            elif tok == '[':
                self.eat(); n = None
                if self.peek() != ']': n = self.eat()
                self.eat(']'); base = T('array', to=base, n=n)
            elif tok == '(':
                # function type or pointer-to-function "(*)(...)" / "(&)(...)"
                save = self.i
                self.eat('(')
                if self.peek() in ('*', '&'):
                    which = self.eat()
                    # optional qualifiers
                    while self.peek() == 'const': self.eat()
                    self.eat(')')
                    params = self.parse_params()
                    f = T('func', to=base, params=params)
                    base = T('ptr' if which == '*' else 'ref', to=f)
                else:
                    self.i = save
                    params = self.parse_params()
                    base = T('func', to=base, params=params)
                # trailing const / noexcept
                while self.peek() in ('const', 'noexcept'):
                    self.eat()
                    if self.peek() == '(':
                        d = 0
                        while True:
                            x = self.eat()
                            if x == '(': d += 1
                            if x == ')':
                                d -= 1
                                if d == 0: break
            else:
                break
        return base
    def parse_params(self):
        self.eat('(')
        params = []
        if self.peek() == ')':
            self.eat(); return params
        while True:
            if self.peek() == '...':
                self.eat(); params.append(T('named', name='...'))
            else:
                params.append(self.parse_type())
            if self.peek() == ',':
                self.eat(); continue
            self.eat(')'); break
        return params
    def parse_name(self):
        parts = []
        args = []
        if self.peek() == '::': self.eat()
        while True:
            ident = self.eat()
            if ident is None or not re.match(r"[A-Za-z_~]", ident):
                raise TypeErrorX("bad name token %r in %r" % (ident, self.src))
            if ident == 'operator':
                # operator names inside types are not expected
                raise TypeErrorX("operator in type %r" % self.src)
            args = []
            if self.peek() == '<':
                self.eat('<')
                if self.peek() == '>':
                    self.eat()
                else:
                    while True:
                        args.append(self.parse_type())
                        if self.peek() == '...': self.eat()
                        if self.peek() == ',':
                            self.eat(); continue
                        self.eat('>'); break
            if self.peek() == '::':
                self.eat()
                if self.peek() == '(':  # "foo::(anonymous struct)::x"
                    parts.append((ident, args)); args = []
                    d = 0; buf = []
                    while True:
                        x = self.eat(); buf.append(x)
                        if x == '(': d += 1
                        if x == ')':
                            d -= 1
                            if d == 0: break
                    parts.append((' '.join(buf), []))
                    if self.peek() == '::':
                        self.eat(); continue
                    break
                parts.append((ident, args))
                continue
            parts.append((ident, args))
            break
        # Build name: template args of inner parts are folded into the name text for uniqueness,
        # last part's args kept structured.
        name_bits = []
        for (ident, a) in parts[:-1]:
            name_bits.append(ident + ('<' + ', '.join(map(repr, a)) + '>' if a else ''))
        name_bits.append(parts[-1][0])
        return T('named', name='::'.join(name_bits), args=parts[-1][1])

def parse(s):
    s = s.replace('(anonymous namespace)::', 'anon::')
    s = re.sub(r"\((?:unnamed|anonymous) (?:struct|class|union) at [^:()]*:(\d+):(\d+)\)", r"__unnamed_L\1C\2", s)
    p = P(tokenize(s), s)
    t = p.parse_type()
    if p.peek() is not None:
        raise TypeErrorX("trailing tokens %r in type %r" % (p.t[p.i:], s))
    return t

if __name__ == '__main__':
    import sys
    for s in sys.argv[1:]:
        print(repr(parse(s)))
