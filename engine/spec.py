"""Parser for /verif/contracts/*.spec (contracts keyed by function name and loop ordinal).

Grammar (line oriented; '#' starts a comment at line start; '<<<' ... '>>>' delimit raw C blocks):

  unit NAME
    tu PATH                 a translation unit of /repo (relative to /repo) or
    tu-header HEADER        a synthetic TU that only includes HEADER (relative to /repo/src)
    filter QUALIFIED_NAME   clang -ast-dump-filter (several allowed)
    include SHIM.h
    opt KEY VALUE           translator option
    by-contract CNAME_GLOB  functions printed as prototypes only (never inlined)
    prelude <<< C >>>       macros / ghost globals placed before the functions
  function CNAME_GLOB       (C names as produced by cxx2c; '*' globs)
    requires EXPR
    ensures LABEL: EXPR
    assigns TARGETS
    frees TARGETS
    assert continue|return|break K LABEL: EXPR   (assertion placed right before the K-th such statement of the function)
    loop K invariant LABEL: EXPR
    loop K decreases EXPR
    loop K ghost STATEMENT;     ghost statement run at the start of every iteration of loop K
    loop K assigns TARGETS
    ghost-field RECORD_QNAME CTYPE NAME
  query NAME
    property C10 C14 ...
    foreach VAR in a b c | foreach VAR in enum:QNAME | foreach VAR in fn:GLOB
    target CNAME_GLOB       function whose contract is enforced
    replace CNAME_GLOB ...  calls replaced by contract
    selfstub                self calls of target go to TARGET__self (replaced by contract)
    harness <<< C >>>       statements before the call (parameters are in scope by their names)
    unwindset L:N ...
    switch-slice FN K I N   print switch K (source order) of FN keeping only the arm groups g with g mod N == I; the other
                            arms become assume(0).  Use with 'foreach I in 0 .. N-1': together the slices cover every arm.
    switch-only FN K LABEL / switch-except FN K LABEL
    branch-cut FN then|else TEXT ; slice-group NAME
                            keep only (all but) the arm group whose first case label contains LABEL
    pre-unwind FN K N       unwind loop K (source order) of function FN N times with unwinding assertion BEFORE contract
                            instrumentation (complete when the assertion holds; needed because cbmc 6.11 dfcc mishandles
                            a loop with a contract nested in a loop without one)
    flags ...               extra cbmc flags
    object-bits N
    timeout SECONDS
    expect-unreachable      no canary of the target needs to be reachable (never used to hide things: listed in evidence)
    checks none             switch cbmc's automatic safety checks (pointer, bounds, overflow ...) off for this query: only the
                            contract obligations (pre/postconditions, invariants, assigns, spec assertions) are decided; stated in evidence
    plain                   no contract instrumentation at all: the harness (which must end in
                            __CPROVER_assert(0, "canary.harness.end")) is checked by cbmc with the given unwinding bounds
    kind proof|bounded      bounded queries are reported separately and never counted as proved
"""
import re, fnmatch, os

class SpecError(Exception):
    pass

class FnSpec:
    def __init__(self, pattern):
        self.pattern = pattern
        self.requires = []; self.ensures = []; self.assigns = []; self.frees = []
        self.asserts = {}
        self.loops = {}   # k -> {'invariant': [(label, expr)], 'decreases': expr, 'assigns': [..]}
        self.src = None

class Query:
    def __init__(self, name):
        self.name = name; self.properties = []; self.foreach = []; self.target = None
        self.replace = []; self.selfstub = False; self.harness = ''; self.unwindset = []
        self.flags = []; self.object_bits = None; self.timeout = None; self.expect_unreachable = False
        self.kind = 'proof'; self.unit = None; self.vars = {}; self.args = None; self.entry = None
        self.no_enforce = False; self.note = ''; self.pre_unwind = []; self.switch_slice = []; self.no_loop_contracts = False; self.plain = False; self.also = []; self.lambdas_of = []; self.cflags = []; self.checks = 'default'; self.slice_group = None; self.models = []; self.mem_gb = None

class UnitSpec:
    def __init__(self, name):
        self.name = name; self.tus = []; self.filters = []; self.includes = []; self.opts = {}
        self.by_contract = []; self.prelude = ''; self.functions = []; self.queries = []
        self.ghost_fields = {}; self.path = None; self.roots = []; self.ghost_init = ''; self.tu_pre = []; self.cflags = []; self.use_enums = []

def parse_file(path):
    lines = open(path).read().split('\n')
    units = []; cur_unit = None; cur = None
    i = 0
    def raw_block(first_rest):
        nonlocal i
        # first_rest is text after '<<<' on the opening line
        buf = []
        if '>>>' in first_rest:
            return first_rest.split('>>>')[0].strip()
        if first_rest.strip(): buf.append(first_rest)
        while i < len(lines):
            l = lines[i]; i += 1
            if l.strip() == '>>>': break
            if l.rstrip().endswith('>>>'):
                buf.append(l.rstrip()[:-3]); break
            buf.append(l)
        return '\n'.join(buf)
    while i < len(lines):
        line = lines[i]; i += 1
        s = line.strip()
        if not s or s.startswith('#'): continue
        # continuation lines: a trailing backslash joins
        while s.endswith('\\') and i < len(lines):
            s = s[:-1] + ' ' + lines[i].strip(); i += 1
        key, _, rest = s.partition(' ')
        rest = rest.strip()
        try:
            if key == 'unit':
                cur_unit = UnitSpec(rest); cur_unit.path = path; units.append(cur_unit); cur = cur_unit
            elif key == 'function':
                cur = FnSpec(rest); cur.src = '%s:%d' % (os.path.basename(path), i); cur_unit.functions.append(cur)
            elif key == 'query':
                cur = Query(rest); cur.unit = cur_unit; cur_unit.queries.append(cur)
            elif isinstance(cur, UnitSpec):
                if key == 'tu': cur.tus.append(('tu', rest))
                elif key == 'tu-header': cur.tus.append(('header', rest))
                elif key == 'filter': cur.filters.append(rest)
                elif key == 'tu-pre': cur.tu_pre.append(rest)
                elif key == 'use-enum': cur.use_enums.append(rest)
                elif key == 'cflag': cur.cflags += rest.split()
                elif key == 'include': cur.includes.append(rest)
                elif key == 'opt':
                    k, _, v = rest.partition(' '); cur.opts[k] = eval(v) if v else True
                elif key == 'by-contract': cur.by_contract += rest.split()
                elif key == 'root': cur.roots += rest.split()
                elif key == 'prelude':
                    cur.prelude += raw_block(rest.split('<<<', 1)[1]) + '\n'
                elif key == 'ghost-init':
                    cur.ghost_init += raw_block(rest.split('<<<', 1)[1]) + '\n'
                elif key == 'ghost-field':
                    parts = rest.split()
                    q, nm, cty = parts[0], parts[-1], ' '.join(parts[1:-1])
                    cur.ghost_fields.setdefault(q.strip(), []).append((nm, cty))
                else: raise SpecError('unknown unit key %s' % key)
            elif isinstance(cur, FnSpec):
                if key == 'requires': cur.requires.append(rest)
                elif key == 'ensures':
                    lab, _, e = rest.partition(':'); cur.ensures.append((lab.strip(), e.strip()))
                elif key == 'assigns': cur.assigns.append(rest)
                elif key == 'frees': cur.frees.append(rest)
                elif key == 'assert':
                    # assert <continue|return|break> <ordinal> <label>: <expr>   (checked right before that statement)
                    kind, k, r2 = rest.split(' ', 2)
                    lab, _, e = r2.partition(':')
                    cur.asserts.setdefault((kind, int(k)), []).append((lab.strip(), e.strip()))
                elif key == 'ghost':
                    # ghost <continue|return|break> <ordinal> <statements>   (ghost code right before that statement; may only
                    # write ghost state - the frame condition of the function under proof would flag anything else)
                    kind, k, r2 = rest.split(' ', 2)
                    cur.asserts.setdefault((kind, int(k)), []).append(('@ghost', r2.strip()))
                elif key == 'loop':
                    k, what, r2 = rest.split(' ', 2)
                    L = cur.loops.setdefault(int(k), {'invariant': [], 'decreases': None, 'assigns': []})
                    if what == 'invariant':
                        lab, _, e = r2.partition(':'); L['invariant'].append((lab.strip(), e.strip()))
                    elif what == 'decreases': L['decreases'] = r2
                    elif what == 'ghost': L.setdefault('ghost', []).append(r2)
                    elif what == 'assigns': L['assigns'].append(r2)
                    else: raise SpecError('loop clause %s' % what)
                else: raise SpecError('unknown function key %s' % key)
            elif isinstance(cur, Query):
                if key == 'property': cur.properties += rest.split()
                elif key == 'foreach':
                    m = re.match(r"(\w+) in (.*)$", rest)
                    cur.foreach.append((m.group(1), m.group(2).split()))
                elif key == 'target': cur.target = rest
                elif key == 'entry': cur.entry = rest
                elif key == 'replace': cur.replace += rest.split()
                elif key == 'selfstub': cur.selfstub = True
                elif key == 'mem-gb': cur.mem_gb = int(rest)    # address-space limit of cbmc for this query (default 14)
                elif key == 'model': cur.models += rest.split()   # bodiless functions whose (trusted) body is written in the prelude
                elif key == 'harness': cur.harness += raw_block(rest.split('<<<', 1)[1]) + '\n'
                elif key == 'unwindset': cur.unwindset += rest.split()
                elif key in ('switch-only', 'switch-except'):
                    sfn, sk, lab = rest.split(); cur.switch_slice.append((sfn, int(sk), key[7:], lab))
                elif key == 'branch-cut':
                    # branch-cut FN then|else TEXT : the `if` of FN whose translated condition contains TEXT (exactly one must)
                    # keeps only the other branch in this query; `slice-group` ties the queries whose cuts together cover every path
                    sfn, side, txt = rest.split(' ', 2); cur.switch_slice.append((sfn, 'if', side, txt.strip()))
                elif key == 'slice-group': cur.slice_group = rest.strip()
                elif key == 'switch-slice':
                    sfn, sk, si, sn = rest.split(); cur.switch_slice.append((sfn, int(sk), si, int(sn)))
                elif key == 'pre-unwind':
                    pfn, pk, pn = rest.split(); cur.pre_unwind.append((pfn, int(pk), int(pn)))
                elif key == 'flags': cur.flags += rest.split()
                elif key == 'object-bits': cur.object_bits = int(rest)
                elif key == 'timeout': cur.timeout = int(rest)
                elif key == 'expect-unreachable': cur.expect_unreachable = True
                elif key == 'kind': cur.kind = rest
                elif key == 'args': cur.args = rest
                elif key == 'no-enforce': cur.no_enforce = True
                elif key == 'no-loop-contracts': cur.no_loop_contracts = True
                elif key == 'plain': cur.plain = True
                elif key == 'checks': cur.checks = rest.strip()
                elif key == 'cflag': cur.cflags += rest.split()
                elif key == 'also': cur.also += rest.split()
                elif key == 'lambdas-of': cur.lambdas_of += rest.split()
                elif key == 'note': cur.note = rest
                else: raise SpecError('unknown query key %s' % key)
            else:
                raise SpecError('statement outside a section')
        except SpecError as e:
            raise SpecError('%s:%d: %s' % (path, i, e))
        except Exception as e:
            raise SpecError('%s:%d: %r in %r' % (path, i, e, s))
    return units

class SpecHooks:
    """adapter between UnitSpec and the translator (contract text for functions and loops)"""
    def __init__(self, uspec):
        self.u = uspec
        self.label_lines = {}   # filled at emission: (cname, kind, idx) -> label
        self.clause_labels = []  # list of (cname, label, clause_kind, text)
        self.used_specs = set()
        self.loops_seen = {}

    def specs_for(self, cname):
        return [f for f in self.u.functions if fnmatch.fnmatchcase(cname, f.pattern)]

    @staticmethod
    def star(pattern, cname):
        """text matched by the (single) '*' of the pattern"""
        if pattern.count('*') != 1: return ''
        pre, post = pattern.split('*')
        return cname[len(pre):len(cname) - len(post)] if len(post) else cname[len(pre):]

    def ghost_fields(self, q):
        return self.u.ghost_fields.get(q, [])

    def fn_contract(self, cname, stub=None):
        out = []
        name = stub or cname
        for f in self.specs_for(cname):
            self.used_specs.add(f.pattern)
            st = self.star(f.pattern, cname)
            for r in f.requires: out.append('__CPROVER_requires(%s)' % r.replace('${STAR}', st))
            for (lab, e) in f.ensures:
                out.append('__CPROVER_ensures(%s) /*@label %s#%s */' % (e.replace('${STAR}', st), name, lab))
            for a in f.assigns: out.append('__CPROVER_assigns(%s)' % a)
            for a in f.frees: out.append('__CPROVER_frees(%s)' % a)
        return out

    def stub_contract(self, cname): return self.fn_contract(cname)

    def loop_contract(self, cname, k):
        out = []
        self.loops_seen[cname] = max(self.loops_seen.get(cname, 0), k)
        for f in self.specs_for(cname):
            L = f.loops.get(k)
            if not L: continue
            self.used_specs.add(f.pattern)
            for a in L['assigns']: out.append('__CPROVER_assigns(%s)' % a)
            for (lab, e) in L['invariant']:
                out.append('__CPROVER_loop_invariant(%s) /*@label %s#loop%d.%s */' % (e, cname, k, lab))
            if L['decreases']: out.append('__CPROVER_decreases(%s)' % L['decreases'])
        return out

    def stmt_asserts(self, cname, kind, k):
        out = []
        for f in self.specs_for(cname):
            for (lab, e) in f.asserts.get((kind, k), []):
                if lab == '@ghost': out.append(e + ' /* ghost */')
                else: out.append('__CPROVER_assert(%s, "spec.%s#%s");' % (e, cname, lab))
        return out

    def loop_ghost(self, cname, k):
        """ghost statements executed at the start of every iteration (may only write ghost state; instantiations of
        quantified preconditions appear here as __CPROVER_assume and are listed in evidence)"""
        out = []
        for f in self.specs_for(cname):
            L = f.loops.get(k)
            if L: out += L.get('ghost', [])
        return out

    def has_loop_contract(self, cname, k):
        return any(f.loops.get(k) for f in self.specs_for(cname))
