"""goto-cc / goto-instrument / cbmc orchestration for one query (function under contract + case)."""
import os, re, json, subprocess, time, fnmatch, hashlib, shutil, resource, itertools
from cxx2c import Unsupported
from cxx2c_unit import Unit
from spec import SpecHooks

SHIMS = '/verif/shims'
DEFAULT_CHECKS = ['--bounds-check', '--pointer-check', '--pointer-overflow-check', '--signed-overflow-check',
                  '--div-by-zero-check', '--conversion-check', '--undefined-shift-check', '--float-overflow-check',
                  '--nan-check', '--pointer-primitive-check']
# nan-check / float-overflow are noisy for code that legitimately handles NaN; they are off unless a query asks.
DEFAULT_CHECKS = [c for c in DEFAULT_CHECKS if c not in ('--nan-check', '--float-overflow-check', '--pointer-primitive-check', '--conversion-check')]
# --conversion-check also flags signed->unsigned conversions, which are well defined in C++ (size_t(-1) idiom); queries
# that convert floats to integers ask for it explicitly with 'flags --conversion-check'.

class QueryResult:
    def __init__(self, name):
        self.name = name; self.status = 'undecided'; self.reason = ''; self.obligations = []
        self.failed = []; self.canaries = {}; self.seconds = 0.0; self.cmd = ''; self.kind = 'proof'
        self.target = None; self.properties = []; self.c_file = None; self.log = None; self.backend = 'cbmc-sat(minisat)'
        self.assumptions = []; self.unit = None; self.functions = []

import threading
_TRANSLATE_LOCK = threading.RLock()

def _limit():
    gb = int(os.environ.get('VERIF_MEM_GB', '14'))
    resource.setrlimit(resource.RLIMIT_AS, (gb << 30, gb << 30))

def run(cmd, timeout, log=None, cwd=None, mem_gb=None):
    t0 = time.time()
    def lim():
        gb = mem_gb or int(os.environ.get('VERIF_MEM_GB', '14'))
        resource.setrlimit(resource.RLIMIT_AS, (gb << 30, gb << 30))
    try:
        p = subprocess.run(cmd, capture_output=True, timeout=timeout, preexec_fn=lim, cwd=cwd)
        return p.returncode, p.stdout.decode('utf-8', 'replace'), p.stderr.decode('utf-8', 'replace'), time.time() - t0
    except subprocess.TimeoutExpired as e:
        return 'timeout', (e.stdout or b'').decode('utf-8', 'replace'), (e.stderr or b'').decode('utf-8', 'replace'), time.time() - t0

class UnitBuilder:
    """translates one spec unit (cached) and expands its queries"""
    def __init__(self, uspec, workdir, cache_dir):
        self.uspec = uspec; self.workdir = workdir; self.cache_dir = cache_dir
        self.unit = None; self.text_cache = {}
        os.makedirs(workdir, exist_ok=True)

    def load(self):
        if self.unit is not None: return self.unit
        u = Unit(self.cache_dir, dict(self.uspec.opts))
        for (kind, path) in self.uspec.tus:
            if kind == 'header':
                tu = os.path.join(self.workdir, 'tu_%s.cpp' % re.sub(r"\W", '_', path))
                with open(tu, 'w') as f: f.write('\n'.join(self.uspec.tu_pre) + '\n#include "%s"\n' % path)
            else:
                tu = os.path.join('/repo', path)
            for filt in self.uspec.filters:
                u.load(tu, filt)
        u.finish_loading()
        u.hooks = SpecHooks(self.uspec)
        self.unit = u
        return u

    def glob_fns(self, pattern):
        u = self.load()
        return sorted(c for c in u.fn_by_cname if fnmatch.fnmatchcase(c, pattern))

    def expand_queries(self):
        """foreach expansion -> list of concrete (query, vars)"""
        u = self.load()
        out = []
        for q in self.uspec.queries:
            domains = []
            for (var, vals) in q.foreach:
                dom = []
                for v in vals:
                    if v.startswith('enum:'):
                        dom += [n for (n, val, _) in u.enum_constants(v[5:])]
                    elif v.startswith('fn:'):
                        dom += self.glob_fns(v[3:])
                    else:
                        dom.append(v)
                domains.append([(var, d) for d in dom])
            combos = list(itertools.product(*domains)) if domains else [()]
            for combo in combos:
                vars_ = dict(combo)
                out.append((q, vars_))
        return out

    def unit_text(self, selfstubs, canaries, roots, slices=()):
        # translations of one unit share the declaration tables (lambdas and generated helpers are added to them while
        # printing): one translation at a time; the cbmc runs, which dominate, stay parallel
        with _TRANSLATE_LOCK:
            return self._unit_text(selfstubs, canaries, roots, slices)

    def _unit_text(self, selfstubs, canaries, roots, slices=()):
        key = (tuple(sorted(selfstubs)), tuple(sorted(canaries)), tuple(sorted(roots)), tuple(slices))
        if key in self.text_cache: return self.text_cache[key]
        # a fresh translation state (declarations/index are shared)
        u = self.load()
        u2 = Unit(self.cache_dir, dict(self.uspec.opts))
        for attr in ('decl', 'parent', 'qname_of', 'records', 'enums', 'aliases', 'fn_by_cname', 'cname_of', 'fn_nodes',
                     'srcinfo', 'redirect', 'labels'):
            setattr(u2, attr, getattr(u, attr))
        u2.hooks = SpecHooks(self.uspec)
        u2.self_stub = set(selfstubs); u2.canary_fns = set(canaries)
        u2.switch_slice = {(fn, k): (i, n) for (fn, k, i, n) in slices if k != 'if'}
        u2.branch_cuts = {}
        for (fn, k, i, n) in slices:
            if k == 'if': u2.branch_cuts.setdefault(fn, []).append({'side': i, 'text': n, 'hits': 0})
        u2.by_contract = set()
        for pat in self.uspec.by_contract:
            u2.by_contract |= set(self.glob_fns(pat))
        for q in self.uspec.use_enums: u2.use_enum(q)
        u2.translate(sorted(roots))
        text = u2.emit(extra_includes=self.uspec.includes)
        self.text_cache[key] = (text, u2)
        return text, u2

def subst(s, vars_):
    for k, v in vars_.items():
        s = s.replace('${%s}' % k, v)
    return s

def label_map(c_text):
    m = {}
    for i, line in enumerate(c_text.split('\n'), 1):
        for lab in re.findall(r"/\*@label ([^ ]+) \*/", line):
            m.setdefault(i, []).append(lab)
    return m

def srcline_map(c_text):
    m = {}
    for i, line in enumerate(c_text.split('\n'), 1):
        x = re.search(r"/\*@L(\d+)\*/", line)
        if x: m[i] = int(x.group(1))
    return m

def nearest_src(slm, line):
    best = None
    for l in range(line, max(0, line - 40), -1):
        if l in slm: return slm[l]
    return None

def run_query(builder, q, vars_, tier, workroot):
    uspec = builder.uspec
    name = subst(q.name, vars_)
    res = QueryResult(name); res.kind = q.kind; res.properties = list(q.properties); res.unit = uspec.name
    t_start = time.time()
    try:
        u = builder.load()
        tpat = subst(q.target, vars_)
        targets = builder.glob_fns(tpat)
        if not targets and q.also:
            # the target may be a lambda, which only gets its name while the enclosing function is translated
            pre = set()
            for pat in q.also: pre |= set(builder.glob_fns(subst(pat, vars_)))
            if pre:
                builder.unit_text(set(), set(), pre)
                targets = builder.glob_fns(tpat)
        if not targets and q.lambdas_of:
            # the target is a lambda of a function that is not itself translated: name the lambdas of that function
            # (document order) without printing its body
            with _TRANSLATE_LOCK:
                for pat in q.lambdas_of:
                    for c in builder.glob_fns(subst(pat, vars_)): u.name_lambdas(c)
            targets = builder.glob_fns(tpat)
        if len(targets) != 1:
            res.reason = 'target pattern %r matches %d functions (extraction changed?)' % (tpat, len(targets)); return res
        target = targets[0]; res.target = target
        selfstubs = {target} if q.selfstub else set()
        canaries = {target}
        slices = tuple((subst(fn, vars_).replace('TARGET', target), k, (i if i in ('only', 'except', 'then', 'else', 'stop') else int(subst(i, vars_))), (subst(n, vars_) if isinstance(n, str) else n)) for (fn, k, i, n) in q.switch_slice)
        roots = {target}
        for pat in q.also:
            m = builder.glob_fns(subst(pat, vars_))
            if not m:
                res.reason = 'also pattern %r matches nothing' % pat; return res
            roots |= set(m)
        text, u2 = builder.unit_text(selfstubs, canaries, roots, slices)
        for fn_, cuts in getattr(u2, 'branch_cuts', {}).items():
            for bc in cuts:
                if bc['hits'] != 1:
                    res.reason = 'branch-cut %r of %s matches %d if-statements (extraction changed?)' % (bc['text'], fn_, bc['hits']); return res
        tnode = u2.fn_by_cname[target]
        # harness
        params = []
        decls = []
        if u2.fn_is_method(tnode):
            cq = u2.fn_class_qname(tnode)
            decls.append('struct %s *self;' % u2.record_cname(cq)); params.append('self')
        if tnode.get('_lambda_env'):
            decls.append('void *__env;'); params.append('__env')
        for p in u2.fn_params(tnode):
            pn = p.get('name') or '__unnamed%d' % len(params)
            decls.append(u2.decl_text(p['type'], pn) + ';'); params.append(pn)
        call = '%s(%s);' % (target, q.args if q.args else ', '.join(params))
        if q.plain: call = ''; decls = []
        harness = 'int __exc;\nvoid harness(void)\n{\n  %s\n%s\n%s\n  %s\n}\n' % ('\n  '.join(decls), uspec.ghost_init, subst(q.harness, vars_), call)
        ctext = text.replace('#include <stdlib.h>\n', '#include <stdlib.h>\n' + uspec.prelude + '\n', 1) + harness
        qdir = os.path.join(workroot, re.sub(r"[^\w.\-\[\]]", '_', name))
        os.makedirs(qdir, exist_ok=True)
        cfile = os.path.join(qdir, 'q.c'); res.c_file = cfile
        open(cfile, 'w').write(ctext)
        lm = label_map(ctext); slm = srcline_map(ctext)
        src_file = u2.srcinfo.get(target, (None,))[0]
        res.functions = sorted(u2.fn_text.keys())
        res.srcinfo = {c: u2.srcinfo.get(c) for c in u2.fn_text}
        res.dropped = sorted(u2.dropped)
        # which bodiless functions exist
        stubs = sorted(u2.proto_only.keys())
        replace = set()
        for pat in q.replace:
            pat = subst(pat, vars_)
            if pat.startswith('='):      # a function declared (with its contract) in the spec's prelude
                replace.add(pat[1:]); continue
            m = [c for c in list(u2.fn_text.keys()) + stubs if fnmatch.fnmatchcase(c, pat)]
            # a pattern that matches nothing is fine (e.g. the callee only occurs in another switch slice); a bodiless
            # function that is NOT replaced is caught below
            replace |= set(m)
        for s in stubs:
            if s.endswith('__self'): replace.add(s)
            elif s in q.models:
                res.assumptions.append('%s: body written in the spec prelude (trusted model of a function that is not in the dump)' % s)
            elif s not in replace:
                res.reason = 'bodiless function %s is not replaced by a contract' % s; return res
        timeout = q.timeout or (600 if tier == 'quick' else 1500)   # generous: SAT times of one query swung by 10x between textually identical runs
        gb1 = os.path.join(qdir, 'a.gb'); gb2 = os.path.join(qdir, 'b.gb')
        rc, so, se, dt = run(['goto-cc', '-I' + SHIMS] + list(uspec.cflags) + [subst(f, vars_) for f in q.cflags] + ['--function', 'harness', cfile, '-o', gb1], 120)
        if rc != 0:
            res.reason = 'goto-cc failed: ' + (so + se)[-1500:]; return res
        if q.pre_unwind:
            rc, so, se, dt = run(['goto-instrument', '--show-loops', gb1], 120)
            loops = re.findall(r"Loop (\S+):\n\s+file \S+ line (\d+) function (\S+)", so)
            clines = ctext.split('\n')
            us = []
            for (fnpat, k, n) in q.pre_unwind:
                fnc = subst(fnpat, vars_).replace('TARGET', target)
                # header line of loop k of that function: first line at/before the '/*@loop k*/' marker inside the function
                fstart = None
                for i, l in enumerate(clines):
                    if re.match(r"^[A-Za-z_][\w\s\*]*\b%s\(" % re.escape(fnc), l) and not l.rstrip().endswith(';'):
                        fstart = i; break
                if fstart is None:
                    res.reason = 'pre-unwind: function %s not found' % fnc; return res
                hline = None
                for i in range(fstart, len(clines)):
                    if clines[i] == '}': break
                    if '/*@loop %d*/' % k in clines[i]:
                        hline = i; break
                if hline is None:
                    res.reason = 'pre-unwind: loop %d of %s not found' % (k, fnc); return res
                # the loop header is the nearest preceding line starting a for/while/do
                j = hline
                while j > fstart and not re.match(r"\s*(for|while|do)\b", clines[j]): j -= 1
                ids = [lid for (lid, line, fn) in loops if fn == fnc and int(line) == j + 1]
                if len(ids) != 1:
                    res.reason = 'pre-unwind: loop %d of %s (C line %d) matches %d goto loops' % (k, fnc, j + 1, len(ids)); return res
                us.append('%s:%d' % (ids[0], n))
            gb1u = os.path.join(qdir, 'a_unwound.gb')
            rc, so, se, dt = run(['goto-instrument', '--unwindset', ','.join(us), '--unwinding-assertions', gb1, gb1u], 300)
            if rc != 0:
                res.reason = 'pre-unwind failed: ' + (so + se)[-1500:]; return res
            gb1 = gb1u
        gi = ['goto-instrument', '--dfcc', 'harness']
        if q.plain:
            gi = ['cp']; replace = set()
        if not q.no_enforce and not q.plain: gi += ['--enforce-contract', target]
        for r in sorted(replace): gi += ['--replace-call-with-contract', r]
        gi += ([] if (q.no_loop_contracts or q.plain) else ['--apply-loop-contracts']) + [gb1, gb2]
        rc, so, se, dt = run(gi, 300)
        open(os.path.join(qdir, 'instrument.log'), 'w').write(' '.join(gi) + '\n' + so + se)
        if rc != 0:
            res.reason = 'goto-instrument failed: ' + (so + se)[-2500:]; return res
        obits = q.object_bits or 8
        # phase 1: plain text UI (cbmc's JSON UI builds a counterexample trace for EVERY failed property, including the
        # reachability canaries that are meant to fail; with large symbolic buffers that alone took minutes)
        while True:
            base = ['cbmc', gb2] + (['--no-standard-checks'] if q.checks == 'none' else DEFAULT_CHECKS) + ['--object-bits', str(obits), '--no-malloc-may-fail']
            if q.unwindset: base += ['--unwindset', ','.join(subst(x, vars_).replace('TARGET', target + '_wrapped_for_contract_checking') for x in q.unwindset)]
            base += [subst(f, vars_) for f in q.flags]
            cb = list(base)
            rc, so, se, dt = run(cb, timeout, mem_gb=q.mem_gb)
            if rc != 'timeout' and 'too many addressed objects' in (so + se) and obits < 16:
                obits += 2; continue
            break
        res.cmd = ' '.join(gi) + ' && ' + ' '.join(cb)
        logp = os.path.join(qdir, 'cbmc.txt'); open(logp, 'w').write(so + se); res.log = logp
        if rc == 'timeout':
            res.reason = 'cbmc timeout after %ds' % timeout; return res
        alltext = so + se
        results = []
        for m in re.finditer(r"^\[([^\]]+)\] (?:line (\d+) )?(.*): (SUCCESS|FAILURE|UNKNOWN|ERROR)$", so, re.M):
            prop = m.group(1)
            fnm = re.sub(r"\.[A-Za-z_\-]+\.\d+$", '', prop)
            results.append({'property': prop, 'description': m.group(3), 'status': m.group(4),
                            'sourceLocation': {'line': m.group(2), 'function': fnm}})
        if not results:
            if 'ran out of memory' in alltext or 'Out of memory' in alltext or rc in (-9, 137):
                res.reason = 'cbmc ran out of memory'; return res
            res.reason = 'cbmc gave no result list (rc=%s): %s' % (rc, alltext[-1500:]); return res
        # phase 2: traces for the genuine failures only (JSON UI restricted to those properties)
        bad = [r['property'] for r in results if r['status'] == 'FAILURE' and not r['description'].startswith('canary')]
        if bad:
            cb2 = list(base) + ['--json-ui']
            for pr in bad[:6]: cb2 += ['--property', pr]
            rc2, so2, se2, dt2 = run(cb2, min(timeout, 300), mem_gb=q.mem_gb)
            open(os.path.join(qdir, 'cbmc.json'), 'w').write(so2 if isinstance(so2, str) else '')
            try:
                for item in json.loads(so2):
                    for r2 in item.get('result', []) if isinstance(item, dict) else []:
                        if 'trace' in r2:
                            for r in results:
                                if r['property'] == r2.get('property'):
                                    r['trace'] = r2['trace']
                                    if r2.get('sourceLocation'): r['sourceLocation'] = dict(r2['sourceLocation'])
            except Exception:
                pass
        if 'ran out of memory' in alltext or 'Out of memory' in alltext:
            res.reason = 'cbmc ran out of memory'; return res
        if 'ignoring forall' in alltext or 'ignoring exists' in alltext:
            res.reason = 'quantifier ignored by back end'; return res
        classes = set()
        for r in results:
            desc = r.get('description', ''); prop = r.get('property', ''); st = r.get('status')
            loc = r.get('sourceLocation', {})
            line = int(loc['line']) if loc.get('line') else None
            fn = loc.get('function', '')
            if desc.startswith('canary.'):
                # unwound copies of one canary: reachable if any copy is
                if res.canaries.get(desc) != 'FAILURE': res.canaries[desc] = st
                continue
            if desc.startswith('canary_other'): continue
            if desc.startswith('spec.'):
                ob = {'name': desc[5:], 'property': prop, 'description': desc, 'status': st, 'c_line': line, 'cxx_line': nearest_src(slm, line) if line else None, 'function': fn}
                res.obligations.append(ob)
                if st != 'SUCCESS':
                    if 'trace' in r: ob['trace'] = r['trace']
                    res.failed.append(ob)
                continue
            labels = lm.get(line, []) if line else []
            if line and not labels and ('loop_invariant' in prop or 'loop_decreases' in prop):
                # loop obligations are located at the loop head; the invariant clauses follow within a few lines
                for l2 in range(line + 1, line + 10):
                    if any('#loop' in x for x in lm.get(l2, [])):
                        # one obligation covers the conjunction of all invariant clauses of the loop
                        l3 = l2
                        while any('#loop' in x for x in lm.get(l3, [])):
                            labels += [x for x in lm[l3] if '#loop' in x]; l3 += 1
                        if 'loop_decreases' not in prop and len(labels) > 3:
                            labels = [labels[0].rsplit('.', 1)[0].split('#')[0] + '#' + labels[0].split('#', 1)[1].split('.')[0] + '.invariants']
                        break
            cls = prop.split('.')[-2] if prop.count('.') >= 2 else prop
            classes.add(cls)
            srcl = nearest_src(slm, line) if line else None
            if labels and ('ensures' in desc or 'invariant' in desc or 'postcondition' in prop or 'loop_invariant' in prop or 'loop_decreases' in prop):
                lab = '+'.join(l.split('#', 1)[1] for l in labels)
                fnl = labels[0].split('#', 1)[0]
                step = ''
                if 'loop_invariant_base' in prop: step = '@base'
                elif 'loop_invariant_step' in prop: step = '@step'
                elif 'loop_decreases' in prop: step = '@decreases'
                oname = '%s#%s%s' % (fnl, lab, step)
            else:
                what = re.sub(r"\s+", ' ', desc)
                what = re.sub(r"0x[0-9a-f]+", 'ADDR', what)
                oname = '%s#auto.%s%s' % (fn.replace('_wrapped_for_contract_checking', '') or '?', cls, (':L%s' % srcl) if srcl else '')
            ob = {'name': oname, 'property': prop, 'description': desc, 'status': st, 'c_line': line, 'cxx_line': srcl,
                  'function': fn}
            res.obligations.append(ob)
            if st not in ('SUCCESS',):
                if 'trace' in r: ob['trace'] = r['trace']
                res.failed.append(ob)
        res.seconds = dt
        # vacuity guards
        if not res.obligations:
            res.reason = 'no obligations generated'; return res
        tcan = {k: v for k, v in res.canaries.items() if k.startswith('canary.%s.' % ('harness' if q.plain else target))}
        res.target_canaries = tcan
        if (q.plain or not q.no_enforce) and not q.expect_unreachable:
            if not tcan:
                res.reason = 'VACUOUS: no reachability canary in target'; return res
            if not any(v == 'FAILURE' for v in tcan.values()):
                res.status = 'undecided'; res.reason = 'VACUOUS: no exit of %s is reachable under its precondition' % target; return res
        # loop contracts must not have been dropped silently
        hooks = u2.hooks
        for c in u2.fn_text:
            nloops = hooks.loops_seen.get(c, 0)
        unwound_failed = [o for o in res.failed if 'unwinding assertion' in o['description'] or '.unwind.' in o['property']]
        if unwound_failed:
            # an unwinding assertion that is not discharged makes every PROOF of this query worthless, but not a refutation:
            # a counterexample of a labelled obligation stays a counterexample.  Failures that depend on the truncated loop
            # itself (the write-set bookkeeping of the contracts library: assigns / frees inclusion) and everything cbmc left
            # UNKNOWN are not believed; if nothing else failed the query is undecided.
            genuine = [o for o in res.failed if o not in unwound_failed and o.get('status') == 'FAILURE'
                       and not re.search(r"#auto\.(assigns|frees|no_alloc|loop_assigns)", o['name'])
                       and not o.get('function', '').startswith('__CPROVER_contracts')]
            labelled = [o for o in genuine if '#auto.' not in o['name']]
            if genuine and all(o.get('status') == 'UNKNOWN' for o in unwound_failed):
                # the unwinding assertion itself was not refuted, cbmc only left it (and everything else behind the first
                # failing obligation) undecided: every FAILURE it did report has a trace and stays a counterexample,
                # the automatic safety checks and the shim preconditions included
                labelled = genuine
            if labelled:
                res.failed = labelled
                res.reason = 'refuted (unwinding assertion %s not discharged: the other obligations of this query are undecided)' % unwound_failed[0]['property']
                res.status = 'fail'; return res
            res.reason = 'unwinding assertion failed (loop without contract or bound too small): %s' % unwound_failed[0]['property']
            res.status = 'undecided'; return res
        res.status = 'fail' if res.failed else 'pass'
        return res
    except Unsupported as e:
        res.reason = 'extraction: %s' % e; return res
    finally:
        res.wall = time.time() - t_start
