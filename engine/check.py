#!/usr/bin/env python3
"""./check <property-id> [--tier quick|thorough] [--replay PATH]

Decides one property with contract-based deductive verification (CBMC dfcc) of the code mechanically extracted
from /repo's current working tree.  Exit codes: 0 held on everything explored (KNOWN-FINDING lines possible),
1 VIOLATION, 2 UNDECIDED (tool problem / extraction problem / vacuity) -- never a violation.
"""
import sys, os, json, time, glob, fnmatch, hashlib, shutil, subprocess, re
import concurrent.futures as cf
HERE = os.path.dirname(os.path.abspath(__file__))
sys.path.insert(0, HERE)
import spec, runner, statics
from cxx2c import Unsupported

ROOT = os.path.dirname(HERE)
WORK = os.path.join(ROOT, '.work')

def load_known():
    p = os.path.join(ROOT, 'known_findings.json')
    if not os.path.exists(p): return []
    return json.load(open(p))['findings']

def tool_versions():
    out = {}
    for t, a in (('cbmc', ['--version']), ('clang++', ['--version']), ('goto-instrument', ['--version'])):
        try:
            out[t] = subprocess.run([t] + a, capture_output=True).stdout.decode().split('\n')[0].strip()
        except Exception:
            out[t] = 'missing'
    return out

def sha_of_source(path, b, e):
    try:
        lines = open(path, errors='replace').read().split('\n')[(b or 1) - 1:(e or b or 1)]
        return hashlib.sha256('\n'.join(lines).encode()).hexdigest()[:16]
    except Exception:
        return None

def scan_assumes(paths):
    """mechanical scan for assumptions in the verification text"""
    found = []
    for p in paths:
        try:
            for i, l in enumerate(open(p, errors='replace'), 1):
                if '__CPROVER_assume' in l:
                    found.append('%s:%d: %s' % (os.path.relpath(p, ROOT), i, l.strip()[:140]))
        except Exception:
            pass
    return found

def main():
    args = sys.argv[1:]
    if not args:
        print(__doc__); return 2
    pid = args[0]
    tier = os.environ.get('VERIF_TIER', 'quick')
    if '--tier' in args: tier = args[args.index('--tier') + 1]
    seed = int(os.environ.get('VERIF_SEED', '0') or 0)
    if '--replay' in args:
        import replay
        return replay.replay_file(args[args.index('--replay') + 1])
    t0 = time.time()
    workroot = os.path.join(WORK, 'run_%s_%s' % (pid, tier))
    shutil.rmtree(workroot, ignore_errors=True)
    os.makedirs(workroot, exist_ok=True)
    jobs = []; builders = []
    undecided = []
    for path in sorted(glob.glob(os.path.join(ROOT, 'contracts', '*.spec'))):
        try:
            units = spec.parse_file(path)
        except spec.SpecError as e:
            print('UNDECIDED property=%s spec error: %s' % (pid, e)); return 2
        for us in units:
            if not any(pid in q.properties for q in us.queries): continue
            b = runner.UnitBuilder(us, os.path.join(workroot, us.name), os.path.join(WORK, 'astcache'))
            builders.append(b)
            try:
                for (q, v) in b.expand_queries():
                    if pid not in q.properties: continue
                    if tier == 'quick' and 'thorough-only' in q.note: continue
                    jobs.append((b, q, v))
            except Unsupported as e:
                undecided.append(('unit %s' % us.name, 'extraction: %s' % e))
    results = []
    njobs = int(os.environ.get('VERIF_JOBS', '16'))
    if jobs:
        # translation is done once per unit, serially, before the solver runs fan out
        for b in builders:
            try: b.load()
            except Unsupported as e: undecided.append(('unit %s' % b.uspec.name, 'extraction: %s' % e))
        with cf.ThreadPoolExecutor(max_workers=njobs) as ex:
            futs = [ex.submit(runner.run_query, b, q, v, tier, os.path.join(workroot, b.uspec.name)) for (b, q, v) in jobs]
            for f in futs: results.append(f.result())
    # supporting static facts (not proofs; listed separately)
    static_facts = statics.run(pid, tier, workroot)
    known = [k for k in load_known() if k['property'] == pid]
    known_open = [k for k in known if k.get('status') == 'known']
    n_obl = 0; n_ok = 0; solver_s = 0.0; n_known_cbmc = 0
    violations = []; known_seen = {}; samples = []; bounded = []
    functions = {}; dropped = set(); cmds = []
    for r in results:
        solver_s += r.seconds
        if r.status == 'undecided':
            undecided.append((r.name, r.reason)); continue
        for c in r.functions:
            si = getattr(r, 'srcinfo', {}).get(c)
            if si and si[0]:
                functions[c] = {'file': si[0], 'lines': [si[1], si[2]], 'sha256_16': sha_of_source(si[0], si[1], si[2])}
        dropped |= set(getattr(r, 'dropped', []))
        if r.cmd and len(cmds) < 1: cmds.append(r.cmd)
        if r.kind == 'bounded':
            bounded.append({'query': r.name, 'obligations': len(r.obligations), 'failed': len(r.failed), 'bound': ' '.join(r.cmd.split('--unwind')[1:])[:80]})
        else:
            n_obl += len(r.obligations); n_ok += len(r.obligations) - len(r.failed)
        if r.obligations and len(samples) < 12:
            o = r.obligations[min(len(r.obligations) - 1, 3 + len(samples))]
            samples.append({'query': r.name, 'function': r.target, 'obligation': o['name'], 'cbmc_property': o['property'],
                            'description': o['description'][:160], 'status': o['status'], 'backend': r.backend, 'seconds': round(r.seconds, 1)})
        for o in r.failed:
            hit = None
            for k in known_open:
                if fnmatch.fnmatchcase(r.name, k['query']) and fnmatch.fnmatchcase(o['name'], k['obligation']):
                    hit = k; break
            if hit is not None:
                known_seen.setdefault(hit['id'], {'finding': hit, 'obligations': []})['obligations'].append('%s :: %s' % (r.name, o['name']))
                if r.kind != 'bounded': n_known_cbmc += 1
            else:
                violations.append((r, o))
    # static-fact failures
    for sf in static_facts:
        if sf['status'] == 'fail':
            hit = None
            for k in known_open:
                if k.get('query') == 'static' and fnmatch.fnmatchcase(sf['name'], k['obligation']): hit = k
            if hit: known_seen.setdefault(hit['id'], {'finding': hit, 'obligations': []})['obligations'].append('static :: ' + sf['name'])
            else: violations.append((None, {'name': 'static:' + sf['name'], 'description': sf.get('detail', ''), 'property': sf['name'], 'status': 'FAILURE', 'static': sf}))
        elif sf['status'] == 'undecided':
            undecided.append(('static ' + sf['name'], sf.get('detail', '')))
    # ---------------------------------------------------------------- verdict
    lines = []
    rc = 0
    replay_paths = []
    if violations:
        import replay
        os.makedirs(os.path.join(ROOT, 'replays'), exist_ok=True)
        groups = {}
        for (r, o) in violations:
            groups.setdefault((r.name if r else 'static', o['name']), (r, o))
        for (qn, on), (r, o) in list(groups.items())[:8]:
            path, reproduced = replay.make_replay(pid, r, o, tier)
            replay_paths.append(path)
            lines.append('VIOLATION property=%s replay=%s%s' % (pid, path, '' if reproduced else ' no-failing-input-found'))
        rc = 1
    for kid, ks in known_seen.items():
        lines.append('KNOWN-FINDING: property=%s %s [%s; %d obligation(s), e.g. %s]' % (pid, ks['finding']['what_fails'], kid, len(ks['obligations']), ks['obligations'][0]))
    # a listed finding whose obligations all pass now is reported (it suppresses nothing; informational)
    for k in known_open:
        if k['id'] not in known_seen and k.get('query') != 'replay-only':
            lines.append('NOTE: listed finding %s did not show up in this run (obligation pattern %s)' % (k['id'], k['obligation']))
    if tier == 'thorough':
        import replay
        for k in known_open:
            if k.get('replay'):
                ok, detail = replay.run_known_replay(k)
                lines.append('REPLAY %s: %s (%s)' % (k['id'], 'reproduced on the real code' if ok else 'NOT reproduced', detail[:120]))
    if undecided and rc == 0:
        rc = 2
    for (n, why) in undecided:
        lines.append('UNDECIDED property=%s query=%s: %s' % (pid, n, why[:600]))
    if not results and not static_facts and rc == 0:
        lines.append('UNDECIDED property=%s: no query is registered for this property' % pid); rc = 2
    wall = time.time() - t0
    # ---------------------------------------------------------------- evidence
    tv = tool_versions()
    spec_files = sorted(glob.glob(os.path.join(ROOT, 'contracts', '*.spec'))) + sorted(glob.glob(os.path.join(ROOT, 'shims', '*.h')))
    assumes = scan_assumes(spec_files)
    trusted = [
        'extraction: clang JSON AST -> C by /verif/engine/cxx2c (%s); what it drops: %s' % (tv.get('clang++'), '; '.join(sorted(dropped)) or 'nothing recorded for these functions'),
        'back end: %s, %s; SAT (MiniSat) unless a query says otherwise' % (tv.get('cbmc'), tv.get('goto-instrument')),
        'shims in /verif/shims are the model of the C++ standard library (DESIGN.md section 3); vector capacity is a precondition; allocation never fails (--no-malloc-may-fail)',
        'integers are bit-precise machine integers (nothing is treated as mathematical); floats follow CBMC IEEE-754',
        'destructors, reference counts, exception unwinding order are dropped by the extraction (DESIGN.md 2.2)',
    ] + ['assume in verification text: ' + a for a in assumes]
    n_known_obl = n_known_cbmc      # cbmc obligations attributed to listed known findings (static facts are not obligations)
    ev = {
        'property_id': pid, 'tier': tier, 'seed': seed, 'level': 'proof',
        'coverage': {
            # the proof-level claim is about the obligations that are NOT attributed to a listed known finding; those are
            # counted separately (obligations_generated = obligations + undischarged_attributed_to_known_findings) and each
            # of them is printed as a KNOWN-FINDING line, never as discharged
            'obligations': n_obl - n_known_obl, 'discharged': n_ok,
            'obligations_generated': n_obl,
            'checker_cmd': cmds[0] if cmds else 'static facts only: ' + ', '.join(sf['name'] for sf in static_facts),
            'trusted_base': trusted,
            'samples': samples or [{'static_fact': sf['name'], 'status': sf['status']} for sf in static_facts[:5]],
            'queries': [{'name': r.name, 'target': r.target, 'status': r.status, 'kind': r.kind, 'obligations': len(r.obligations),
                         'failed': len(r.failed), 'seconds': round(r.seconds, 1), 'reachable_exit_canaries': sum(1 for v in getattr(r, 'target_canaries', {}).values() if v == 'FAILURE'),
                         'reason': r.reason[:300]} for r in results],
            'functions_under_contract': functions,
            'bounded': bounded,
            'static_facts': static_facts,
            'undischarged_attributed_to_known_findings': sum(len(k['obligations']) for k in known_seen.values()),
            'known_findings_seen': [{'id': kid, 'what_fails': ks['finding']['what_fails'], 'obligations': ks['obligations'][:20]} for kid, ks in known_seen.items()],
            'solver_seconds': round(solver_s, 1),
            'undecided': [{'query': n, 'reason': w[:300]} for (n, w) in undecided],
            'exhaustive': False,
        },
        'assumptions': trusted,
        'wall_s': round(wall, 1),
        'violations': len([l for l in lines if l.startswith('VIOLATION')]),
    }
    nc = os.path.join(ROOT, 'contracts', 'not_covered.json')
    if os.path.exists(nc):
        ev['coverage']['not_covered'] = json.load(open(nc)).get(pid, [])
    # (seeded/run_seed.sh points VERIF_EVIDENCE_DIR at a scratch directory, so that a run on a deliberately broken tree never
    #  replaces the evidence of the real one)
    evdir = os.environ.get('VERIF_EVIDENCE_DIR') or os.path.join(ROOT, 'evidence')
    os.makedirs(evdir, exist_ok=True)
    json.dump(ev, open(os.path.join(evdir, pid + '.json'), 'w'), indent=1)
    for l in lines: print(l)
    print('SUMMARY property=%s tier=%s queries=%d obligations=%d discharged=%d known=%d undecided=%d violations=%d wall=%.0fs'
          % (pid, tier, len(results), n_obl, n_ok, len(known_seen), len(undecided), ev['violations'], wall))
    return rc

if __name__ == '__main__':
    sys.exit(main())
