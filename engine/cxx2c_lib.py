"""Library table of cxx2c: how operations on standard-library types are printed (DESIGN.md section 3).

Every entry is keyed by (category of the object type, member/operator name) and produces a C
expression over the shims in /verif/shims.  No entry => Unsupported (exit 2).
"""
import re
from cxx2c import Unsupported

class Lib:
    def xform_tag(self, fn_text):
        # every lambda that does the same thing (std::tolower on each character) gets the same tag, so that the lower-cased
        # class of a name is the same wherever it is computed; anything else gets a tag of its own
        tags = self.__dict__.setdefault('_xform_tags', {})
        node = None
        for c in self.tr.fn_nodes:
            if self.tr.cname_of.get(c.get('id')) == fn_text: node = c; break
        key = fn_text
        if node is not None:
            import json
            txt = json.dumps(node)
            if '"tolower"' in txt and txt.count('"CallExpr"') == 1: key = 'tolower'
        if key == 'tolower': return 0
        return tags.setdefault(key, len(tags) + 1)
    def __init__(self, tr):
        self.tr = tr

    # -------------------------------------------------------------- helpers
    def elem(self, t, i=0):
        return t.strip_ref().args[i]

    def M(self, t, i=0):
        return self.tr.mangle_t(self.elem(t, i))

    # -------------------------------------------------------------- operators
    def operator(self, P, n, name, args):
        """name like 'operator<'; args: list of AST nodes (object first for member operators)"""
        op = name[len('operator'):]
        a0 = args[0]
        t0 = P.ty(a0); c0 = self.tr.category(t0)
        if op == '()' and t0.strip_ref().kind == 'named' and t0.strip_ref().name in ('std::hash', 'hash') and len(args) == 2 and t0.strip_ref().args:
            # std::hash<T>()(x): libstdc++'s hash of a float / a string, modelled in shims (base.h / str.h)
            ht = t0.strip_ref().args[0]; hc = self.tr.category(ht)
            if hc == 'scalar' and ht.name == 'float': return 'shim_hash_float(%s)' % P.ex(args[1])
            if hc == 'str': return 'shim_hash_sv(%s)' % self.as_sv(P, args[1])
        if op == '<<' and c0 == 'fstream':
            # `stringstream << x` through the basic_ostream overloads: look through the derived-to-base cast
            x = a0
            while x.get('kind') in ('ImplicitCastExpr', 'ParenExpr') and x.get('inner'): x = x['inner'][0]
            if self.tr.category(P.ty(x)) == 'sstream':
                a0 = x; t0 = P.ty(x); c0 = 'sstream'
            else:
                # a chain `ss << a << b`: the left operand is itself `ss << a` (which the model gives back as the buffer)
                y = x; depth = 0
                while y.get('kind') == 'CXXOperatorCallExpr' and len(y.get('inner', [])) >= 3 and depth < 64:
                    y = y['inner'][1]; depth += 1
                    while y.get('kind') in ('ImplicitCastExpr', 'ParenExpr') and y.get('inner'): y = y['inner'][0]
                if depth and self.tr.category(P.ty(y)) == 'sstream':
                    a0 = x; c0 = 'sstream'
        if c0 in ('ptr', 'carray', 'scalar') and op == '+' and len(args) == 2 and self.tr.category(P.ty(args[1])) in ('str', 'sv'):
            return 'str_concat(%s, %s)' % (self.as_sv(P, a0), self.as_sv(P, args[1]))
        if c0 in ('iter', 'ptr') or (c0 == 'sp' and op in ('==', '!=')):
            if op in ('<', '>', '<=', '>=', '==', '!='):
                return '(%s %s %s)' % (P.ex(a0), op, P.ex(args[1]))
            if op in ('+', '-') and len(args) == 2:
                return '(%s %s %s)' % (P.ex(a0), op, P.ex(args[1]))
            if op in ('+=', '-='):
                return '(%s %s %s)' % (P.ex(a0), op, P.ex(args[1]))
            if op in ('++', '--'):
                if len(args) == 2: return '(%s%s)' % (P.paren(P.ex(a0)), op)
                return '(%s%s)' % (op, P.paren(P.ex(a0)))
            if op == '*' and len(args) == 1:
                return '(*%s)' % P.paren(P.ex(a0))
            if op == '[]':
                return '%s[%s]' % (P.paren(P.ex(a0)), P.ex(args[1]))
            if op == '->':
                return P.ex(a0)
            if op == '=':
                return '(%s = %s)' % (P.ex(a0), P.ex(args[1]))
        if c0 == 'chrono' or (len(args) == 2 and self.tr.category(P.ty(args[1])) == 'chrono'):
            return self.chrono_op(P, n, op, args)
        if c0 == 'atomic':
            if op == '=': return '(%s = %s)' % (P.ex(a0), P.ex(args[1]))
        if c0 in ('scalar', 'enum') and len(args) == 2 and op in ('<', '>', '<=', '>=', '==', '!=', '+', '-', '|', '&', '^', '+=', '-=', '|=', '&=', '='):
            # class types that the table maps to scalars (std::fpos, std::ios_base::openmode, ...)
            return '(%s %s %s)' % (P.ex(a0), op, P.ex(args[1]))
        if c0 in ('scalar', 'enum') and len(args) == 1 and op in ('~', '-', '!'):
            return '(%s%s)' % (op, P.paren(P.ex(a0)))
        if c0 == 'umapiter':
            if op in ('==', '!='): return '(%s %s %s)' % (P.ex(a0), op, P.ex(args[1]))
            if op == '->': return P.ex(a0)
            if op == '*' and len(args) == 1: return '(*%s)' % P.paren(P.ex(a0))
            if op == '=': return '(%s = %s)' % (P.ex(a0), P.ex(args[1]))
        if c0 == 'umap':
            m = self.tr.mangle_t(t0.strip_ref().args[1])
            if op == '[]': return '(*umap_%s_index(%s, %s))' % (m, P.addr(a0), self.as_sv(P, args[1]))
        if c0 == 'riter':
            # std::reverse_iterator<T*>: {T *base}; *it == *(base - 1)
            if op in ('==', '!='): return '(%s.base %s %s.base)' % (P.paren(P.ex(a0)), op, P.paren(P.ex(args[1])))
            if op == '++':
                if len(args) == 2: return 'RITER_POSTINC(%s)' % P.addr(a0)
                return '(*RITER_PREINC(%s))' % P.addr(a0)
            if op == '--':
                if len(args) == 2: raise Unsupported('%s: postfix -- on reverse iterator' % P.cname)
                return '(*RITER_PREDEC(%s))' % P.addr(a0)
            if op == '*' and len(args) == 1: return '(*(%s.base - 1))' % P.paren(P.ex(a0))
            if op == '->': return '(%s.base - 1)' % P.paren(P.ex(a0))
            if op == '-' and len(args) == 2 and self.tr.category(P.ty(args[1])) == 'riter':
                return '(%s.base - %s.base)' % (P.paren(P.ex(args[1])), P.paren(P.ex(a0)))
            if op == '=': return '(%s = %s)' % (P.ex(a0), P.ex(args[1]))
        if c0 == 'sp':
            if op == '->': return P.ex(a0)
            if op == '*': return '(*%s)' % P.paren(P.ex(a0))
            if op == '=': return '(%s = %s)' % (P.ex(a0), P.ex(args[1]))
            if op == ' bool': return '(%s != 0)' % P.paren(P.ex(a0))
        if c0 == 'vec':
            m = self.M(t0)
            if op == '[]':
                return '(*vec_%s_at(%s, %s))' % (m, P.addr(a0), P.ex(args[1]))
            if op == '=':
                self.tr.dropped.add('vector assignment is a shallow struct copy in the C model')
                return '(%s = %s)' % (P.ex(a0), P.ex(args[1]))
        if c0 == 'opt':
            m = self.M(t0)
            if op == '*': return '(*opt_%s_deref(%s))' % (m, P.addr(a0))
            if op == '->': return 'opt_%s_deref(%s)' % (m, P.addr(a0))
            if op == '=':
                return '(%s = %s)' % (P.ex(a0), self.to_opt(P, t0, args[1]))
        if c0 == 'sv':
            if op == '[]': return '(*sv_at(%s, %s))' % (P.addr(a0), P.ex(args[1]))
            if op == '=': return '(%s = %s)' % (P.ex(a0), P.ex(args[1]))
            if op in ('==', '!='):
                return '(%ssv_eq(%s, %s))' % ('!' if op == '!=' else '', self.as_sv(P, a0), self.as_sv(P, args[1]))
        if c0 == 'str':
            if op == '[]': return '(*str_at(%s, %s))' % (P.addr(a0), P.ex(args[1]))
            if op == '=': return 'str_assign(%s, %s)' % (P.addr(a0), self.as_sv(P, args[1]))
            if op == '+=':
                t1 = P.ty(args[1]); c1 = self.tr.category(t1)
                if c1 == 'scalar': return 'str_push_back(%s, %s)' % (P.addr(a0), P.ex(args[1]))
                return 'str_append(%s, %s)' % (P.addr(a0), self.as_sv(P, args[1]))
            if op in ('==', '!='):
                return '(%ssv_eq(%s, %s))' % ('!' if op == '!=' else '', self.as_sv(P, a0), self.as_sv(P, args[1]))
            if op in ('<', '>', '<=', '>=') and self.tr.category(P.ty(args[1])) in ('str', 'sv'):
                # lexicographic order through std::string::compare (the model: 0 exactly for equal contents)
                return '(sv_compare(%s, %s) %s 0)' % (self.as_sv(P, a0), self.as_sv(P, args[1]), op)
            if op == '+':
                return 'str_concat(%s, %s)' % (self.as_sv(P, a0), self.as_sv(P, args[1]))
        if c0 in ('ptr', 'scalar') and op == '+' and len(args) == 2 and self.tr.category(P.ty(args[1])) == 'str':
            return 'str_concat(%s, %s)' % (self.as_sv(P, a0), self.as_sv(P, args[1]))
        if c0 in ('ptr',) and op in ('==', '!=') and self.tr.category(P.ty(args[1])) in ('str', 'sv'):
            return '(%ssv_eq(%s, %s))' % ('!' if op == '!=' else '', self.as_sv(P, a0), self.as_sv(P, args[1]))
        if c0 == 'opaque' and op == '=':
            return '(%s = %s)' % (P.ex(a0), P.ex(args[1]))
        if c0 == 'sstream' and op == '<<':
            t1 = P.ty(args[1]); c1 = self.tr.category(t1)
            if c1 in ('str', 'sv') or (c1 == 'ptr'):
                return '(*strbuf_put_sv(%s, %s))' % (P.addr(a0), self.as_sv(P, args[1]))
            if c1 == 'scalar':
                if t1.strip_ref().name == 'char':
                    return '(*strbuf_put_char(%s, %s))' % (P.addr(a0), P.ex(args[1]))
                return '(*strbuf_put_num(%s, (double)%s))' % (P.addr(a0), P.ex(args[1]))
        raise Unsupported('%s: no library mapping for %s on %r (category %s)' % (P.cname, name, t0, c0))

    def chrono_scaled(self, P, a, den):
        """expression a (chrono or plain number) expressed in ticks of 1/den seconds"""
        da = self.tr.chrono_den(P.ty(a))
        e = P.ex(a)
        if da is None or da == den: return e
        if den % da == 0: return '(%s * %dL)' % (P.paren(e), den // da)
        if da % den == 0: return '(%s / %dL)' % (P.paren(e), da // den)
        raise Unsupported('%s: chrono conversion %d -> %d' % (P.cname, da, den))

    def chrono_op(self, P, n, op, args):
        dens = [d for d in (self.tr.chrono_den(P.ty(a)) for a in args) if d is not None]
        if op in ('<', '>', '<=', '>=', '==', '!=') and len(args) == 2:
            den = max(dens)
            return '(%s %s %s)' % (self.chrono_scaled(P, args[0], den), op, self.chrono_scaled(P, args[1], den))
        if op in ('+', '-') and len(args) == 2:
            den = self.tr.chrono_den(P.ty(n)) or max(dens)
            return '(%s %s %s)' % (self.chrono_scaled(P, args[0], den), op, self.chrono_scaled(P, args[1], den))
        if op in ('=', '+=', '-=') and len(args) == 2:
            den = self.tr.chrono_den(P.ty(args[0]))
            return '(%s %s %s)' % (P.ex(args[0]), op, self.chrono_scaled(P, args[1], den))
        raise Unsupported('%s: chrono operator %s' % (P.cname, op))

    def emplace_back(self, P, n, t, m, vaddr, A):
        """v.emplace_back(args...): construct the element in place in the next slot (capacity from the precondition) with
        the constructor whose parameter count matches; yields the new element (C++17 returns a reference)"""
        tr = self.tr
        q = self.elem(t).name
        cands = [c for c in tr.fn_nodes if c['kind'] == 'CXXConstructorDecl' and tr.fn_class_qname(c) == q and len(tr.fn_params(c)) == len(A) and not c.get('isImplicit')]
        # exclude copy/move constructors when one argument of another type is given
        if len(A) == 1:
            cands = [c for c in cands if tr.tparse(tr.fn_params(c)[0]['type']).strip_ref().name != q]
        if len(cands) != 1:
            raise Unsupported('%s: emplace_back on %s with %d args: %d candidate constructors' % (P.cname, q, len(A), len(cands)))
        ctor = cands[0]
        cn = tr._callee_cname(P, ctor)
        args = P.call_args(ctor, A)
        # C++ evaluates the constructor arguments before the vector grows (they may read the old size()): evaluate them
        # into temporaries first
        pre = []
        for i, a in enumerate(args):
            cty = tr.ctype_t(tr.tparse(tr.fn_params(ctor)[i]['type']))
            tmp = P.new_temp(lambda nm, cty=cty: '%s %s' % (cty, nm))
            pre.append('%s = %s' % (tmp, a)); args[i] = tmp
        return '(*(%svec_%s_emplace_slot(%s), %s(vec_%s_back(%s)%s), vec_%s_back(%s)))' % (''.join(x + ', ' for x in pre), m, vaddr, cn, m, vaddr, ''.join(', ' + a for a in args), m, vaddr)

    def find_if(self, P, n, args):
        """std::find_if(first, last, capture-less lambda) over pointers or reverse iterators: a generated helper with a loop
        contract (so that it can sit inside a loop that has a contract)"""
        tr = self.tr
        t = P.ty(args[0]); cat = tr.category(t)
        pred = P.ex(args[2])
        ity = tr.ctype_t(t)
        k = len(tr.generated_helpers)
        name = '%s__find_if%d' % (P.cname, k)
        if cat == 'riter':
            body = ('static inline %s %s(%s b, %s e) {\n'
                    '  while (b.base != e.base)\n'
                    '    __CPROVER_assigns(b.base)\n'
                    '    __CPROVER_loop_invariant(__CPROVER_same_object(b.base, e.base) && __CPROVER_POINTER_OFFSET(b.base) >= __CPROVER_POINTER_OFFSET(e.base) && (__CPROVER_POINTER_OFFSET(b.base) - __CPROVER_POINTER_OFFSET(e.base)) %% sizeof(*b.base) == 0 && __CPROVER_POINTER_OFFSET(b.base) <= __CPROVER_POINTER_OFFSET(__CPROVER_loop_entry(b.base)))\n'
                    '    __CPROVER_decreases(__CPROVER_POINTER_OFFSET(b.base) - __CPROVER_POINTER_OFFSET(e.base))\n'
                    '  { b.base = e.base + (__CPROVER_POINTER_OFFSET(b.base) - __CPROVER_POINTER_OFFSET(e.base)) / sizeof(*b.base); /* re-anchor the havocked pointer (DESIGN 0a (a)) */\n'
                    '    if (%s(b.base - 1)) return b; b.base = b.base - 1; }\n'
                    '  return e; }') % (ity, name, ity, ity, pred)
        elif cat in ('iter', 'ptr'):
            body = ('static inline %s %s(%s b, %s e) {\n'
                    '  while (b != e)\n'
                    '    __CPROVER_assigns(b)\n'
                    '    __CPROVER_loop_invariant(__CPROVER_same_object(b, e) && __CPROVER_POINTER_OFFSET(b) <= __CPROVER_POINTER_OFFSET(e) && (__CPROVER_POINTER_OFFSET(e) - __CPROVER_POINTER_OFFSET(b)) %% sizeof(*b) == 0 && __CPROVER_POINTER_OFFSET(b) >= __CPROVER_POINTER_OFFSET(__CPROVER_loop_entry(b)))\n'
                    '    __CPROVER_decreases(__CPROVER_POINTER_OFFSET(e) - __CPROVER_POINTER_OFFSET(b))\n'
                    '  { b = e - (__CPROVER_POINTER_OFFSET(e) - __CPROVER_POINTER_OFFSET(b)) / sizeof(*b); /* re-anchor the havocked pointer (DESIGN 0a (a)) */\n'
                    '    if (%s(b)) return b; b = b + 1; }\n'
                    '  return e; }') % (ity, name, ity, ity, pred)
        else:
            raise Unsupported('%s: find_if over %r' % (P.cname, t))
        tr.generated_helpers.append(body)
        return '%s(%s, %s)' % (name, P.ex(args[0]), P.ex(args[1]))

    def as_sv(self, P, a):
        """print expression a (str, sv, const char*, char) as an sv value"""
        s = P.skip(a)
        t = P.ty(a); c = self.tr.category(t)
        if c == 'sv': return P.ex(a)
        if c == 'str':
            return 'str_view(%s)' % P.addr(a) if P.is_glvalue(a) else 'str_view_v(%s)' % P.ex(a)
        if c in ('ptr', 'carray'):
            x = s
            while x.get('kind') in ('ImplicitCastExpr', 'ParenExpr'): x = x['inner'][0]
            if x.get('kind') == 'StringLiteral':
                lit = x['value']
                return '((sv){%s, sizeof(%s) - 1})' % (lit, lit)
            return 'sv_from_cstr(%s)' % P.ex(a)
        if c == 'scalar':
            return 'sv_from_char(%s)' % P.ex(a)
        raise Unsupported('%s: cannot view %r as characters' % (P.cname, t))

    def to_opt(self, P, topt, a):
        ta = P.ty(a); ca = self.tr.category(ta)
        if ca == 'opt': return P.ex(a)
        if ca == 'nullopt': return '((%s){0})' % self.tr.ctype_t(topt.strip_ref())
        return '((%s){1, %s})' % (self.tr.ctype_t(topt.strip_ref()), P.ex(a))

    # -------------------------------------------------------------- methods
    def method(self, P, n, cat, t, name, obj, is_arrow, args):
        tr = self.tr
        def objaddr():
            return P.ex(obj) if is_arrow else P.addr(obj)
        def objval():
            return ('(*%s)' % P.paren(P.ex(obj))) if is_arrow else P.ex(obj)
        A = [a for a in args]
        if cat == 'scalar' and name.startswith('operator '):
            return objval()     # conversion operator of a class the table maps to a scalar (std::fpos -> streamoff)
        if cat == 'chrono':
            if name == 'count': return objval()
            if name in ('zero', 'min') and not A: return '0L'
            if name == 'time_since_epoch': return objval()
        if cat == 'atomic':
            if name.startswith('operator ') or name == 'load': return objval()
            if name == 'store': return '(%s = %s)' % (objval(), P.ex(A[0]))
            if name in ('compare_exchange_weak', 'compare_exchange_strong'):
                self.tr.dropped.add('std::atomic compare_exchange: sequential model (weak may fail spuriously)')
                return 'shim_cas_bool(%s, %s, %s, %d)' % (objaddr(), P.addr(A[0]), P.ex(A[1]), 1 if 'weak' in name else 0)
            if name == 'exchange': return 'shim_xchg_bool(%s, %s)' % (objaddr(), P.ex(A[0]))
        if cat == 'umap':
            m = self.tr.mangle_t(t.strip_ref().args[1])
            if name == 'find' and len(A) == 1: return 'umap_%s_find(%s, %s)' % (m, objaddr(), self.as_sv(P, A[0]))
            if name in ('end', 'cend') and not A: return '((struct umap_%s_pair *)0)' % m
            if name == 'at' and len(A) == 1:
                P.note_throw(); return '(*umap_%s_at(%s, %s))' % (m, objaddr(), self.as_sv(P, A[0]))
            if name == 'size': return '%s.size' % P.paren(objval())
            if name == 'empty': return '(%s.size == 0)' % P.paren(objval())
            if name == 'erase' and len(A) == 1 and self.tr.category(P.ty(A[0])) in ('str', 'sv', 'ptr'): return 'umap_%s_erase(%s, %s)' % (m, objaddr(), self.as_sv(P, A[0]))
            if name == 'count' and len(A) == 1: return '(umap_%s_find(%s, %s) != 0)' % (m, objaddr(), self.as_sv(P, A[0]))
        if cat == 'il':
            if name == 'begin': return '%s.data' % P.paren(objval())
            if name == 'end': return '(%s.data + %s.size)' % (P.paren(objval()), P.paren(objval()))
            if name == 'size': return '%s.size' % P.paren(objval())
        if cat == 'vec':
            m = self.M(t)
            if name == 'size': return '%s.size' % P.paren(objval())
            if name == 'empty': return '(%s.size == 0)' % P.paren(objval())
            if name in ('begin', 'cbegin', 'data'): return '%s.data' % P.paren(objval())
            if name in ('end', 'cend'): return '(%s.data + %s.size)' % (P.paren(objval()), P.paren(objval()))
            if name in ('rbegin', 'crbegin'):
                tr.inst('RITER_DECL', tr.ctype_t(self.elem(t)) + ' *', m + '_p')
                return '((struct riter_%s_p){%s.data + %s.size})' % (m, P.paren(objval()), P.paren(objval()))
            if name in ('rend', 'crend'):
                tr.inst('RITER_DECL', tr.ctype_t(self.elem(t)) + ' *', m + '_p')
                return '((struct riter_%s_p){%s.data})' % (m, P.paren(objval()))
            if name == 'back': return '(*vec_%s_back(%s))' % (m, objaddr())
            if name == 'front': return '(*vec_%s_front(%s))' % (m, objaddr())
            if name == 'at':
                P.note_throw(); return '(*vec_%s_at_checked(%s, %s))' % (m, objaddr(), P.ex(A[0]))
            if name in ('push_back', 'emplace_back') and len(A) == 1:
                return 'vec_%s_push_back(%s, %s)' % (m, objaddr(), P.ex(A[0]))
            if name == 'emplace_back' and len(A) >= 1 and self.tr.category(self.elem(t)) == 'record':
                return self.emplace_back(P, n, t, m, objaddr(), A)
            if name == 'pop_back': return 'vec_%s_pop_back(%s)' % (m, objaddr())
            if name == 'clear': return 'vec_%s_clear(%s)' % (m, objaddr())
            if name == 'reserve':
                return 'vec_%s_reserve(%s, %s)' % (m, objaddr(), P.ex(A[0]))
            if name == 'resize' and len(A) == 1:
                return 'vec_%s_resize(%s, %s)' % (m, objaddr(), P.ex(A[0]))
            if name == 'erase' and len(A) == 1:
                return 'vec_%s_erase(%s, %s)' % (m, objaddr(), P.ex(A[0]))
            if name == 'operator=' and len(A) == 1:
                self.tr.dropped.add('vector assignment is a shallow struct copy in the C model')
                return '(%s = %s)' % (objval(), P.ex(A[0]))
        if cat == 'opt':
            m = self.M(t)
            if name == 'has_value': return '%s.has' % P.paren(objval())
            if name == 'value':
                P.note_throw(); return '(*opt_%s_value(%s))' % (m, objaddr())
            if name == 'operator bool': return '%s.has' % P.paren(objval())
            if name == 'reset': return '(%s.has = 0)' % P.paren(objval())
        if cat == 'sp':
            if name == 'get' and 'reference_wrapper' in t.strip_ref().name: return '(*%s)' % P.paren(objval())
            if name == 'get': return objval()
            if name == 'operator bool': return '(%s != 0)' % P.paren(objval())
            if name == 'lock': return objval()
            if name == 'expired': return '(%s == 0)' % P.paren(objval())
            if name == 'reset' and not A: return '(%s = 0)' % P.paren(objval())
        if cat == 'sv':
            if name in ('size', 'length'): return '%s.len' % P.paren(objval())
            if name == 'empty': return '(%s.len == 0)' % P.paren(objval())
            if name == 'data': return '%s.data' % P.paren(objval())
            if name in ('begin', 'cbegin'): return '%s.data' % P.paren(objval())
            if name in ('end', 'cend'): return '(%s.data + %s.len)' % (P.paren(objval()), P.paren(objval()))
            if name == 'substr':
                P.note_throw()
                if len(A) == 2: return 'sv_substr(%s, %s, %s)' % (objval(), P.ex(A[0]), P.ex(A[1]))
                return 'sv_substr(%s, %s, (unsigned long)-1)' % (objval(), P.ex(A[0]))
            if name in ('front',): return '(*sv_at(%s, 0))' % objaddr()
            if name in ('back',): return '(*sv_back(%s))' % objaddr()
            if name == 'at':
                P.note_throw(); return '(*sv_at_checked(%s, %s))' % (objaddr(), P.ex(A[0]))
        if cat == 'str':
            if name in ('size', 'length'): return '%s.len' % P.paren(objval())
            if name == 'empty': return '(%s.len == 0)' % P.paren(objval())
            if name in ('data', 'c_str'): return '%s.data' % P.paren(objval())
            if name in ('begin', 'cbegin'): return '%s.data' % P.paren(objval())
            if name in ('end', 'cend'): return '(%s.data + %s.len)' % (P.paren(objval()), P.paren(objval()))
            if name == 'operator basic_string_view': return 'str_view(%s)' % objaddr()
            if name == 'push_back': return 'str_push_back(%s, %s)' % (objaddr(), P.ex(A[0]))
            if name == 'append' and len(A) == 1: return 'str_append(%s, %s)' % (objaddr(), self.as_sv(P, A[0]))
            if name == 'clear': return 'str_clear(%s)' % objaddr()
            if name == 'shrink_to_fit': return '((void)0)'
            if name == 'reserve': return 'str_reserve(%s, %s)' % (objaddr(), P.ex(A[0]))
            if name == 'substr':
                P.note_throw()
                if len(A) == 2: return 'str_substr(%s, %s, %s)' % (objaddr(), P.ex(A[0]), P.ex(A[1]))
                return 'str_substr(%s, %s, (unsigned long)-1)' % (objaddr(), P.ex(A[0]))
            if name == 'front': return '(*str_at(%s, 0))' % objaddr()
            if name == 'back': return '(*str_back(%s))' % objaddr()
            if name == 'at':
                P.note_throw(); return '(*str_at_checked(%s, %s))' % (objaddr(), P.ex(A[0]))
            if name == 'operator=' and len(A) == 1: return 'str_assign(%s, %s)' % (objaddr(), self.as_sv(P, A[0]))
            if name == 'compare' and len(A) == 1: return 'sv_compare(str_view(%s), %s)' % (objaddr(), self.as_sv(P, A[0]))
            if name == 'resize' and len(A) == 1: return 'str_resize(%s, %s)' % (objaddr(), P.ex(A[0]))
            if name == 'find' and len(A) in (1, 2) and self.tr.category(P.ty(A[0])) == 'scalar':
                return 'str_find_char(%s, (char)(%s), %s)' % (objaddr(), P.ex(A[0]), P.ex(A[1]) if len(A) == 2 else '0')
        if cat == 'riter':
            if name == 'base': return '%s.base' % P.paren(objval())
        if cat == 'stdarray':
            if name == 'data': return '(&%s[0])' % P.paren(objval())
            if name == 'size': return '%s' % t.strip_ref().args[1].name
        if cat == 'fstream':
            return self.fstream_method(P, n, name, objaddr, A)
        if cat == 'sstream':
            if name == 'str' and not A: return 'strbuf_str(%s)' % objaddr()
        if cat == 'opaque' and name == 'operator=' and len(A) == 1:
            return '(%s = %s)' % (objval(), P.ex(A[0]))
        raise Unsupported('%s: no library mapping for method %s on %r (category %s)' % (P.cname, name, t, cat))

    def fstream_method(self, P, n, name, objaddr, A):
        if name == 'read': return 'vfile_read(%s, %s, %s)' % (objaddr(), P.ex(A[0]), P.ex(A[1]))
        if name == 'gcount': return 'vfile_gcount(%s)' % objaddr()
        if name == 'tellg': return 'vfile_tellg(%s)' % objaddr()
        if name == 'seekg':
            if len(A) == 1: return 'vfile_seekg(%s, %s)' % (objaddr(), P.ex(A[0]))
            return 'vfile_seekg2(%s, %s, %s)' % (objaddr(), P.ex(A[0]), P.ex(A[1]))
        if name in ('good', 'eof', 'fail', 'bad', 'is_open', 'clear', 'close', 'get', 'peek'):
            return 'vfile_%s(%s%s)' % (name, objaddr(), ''.join(', ' + P.ex(a) for a in A))
        if name == 'open':
            return '(*%s = vfile_open_path(%s))' % (objaddr(), P.ex(A[1]) if len(A) > 1 else '8')
        if name == 'operator bool': return 'vfile_good(%s)' % objaddr()
        if name == 'write':
            return 'vfile_write(%s, %s, %s)' % (objaddr(), P.ex(A[0]), P.ex(A[1]))
        raise Unsupported('%s: no library mapping for stream method %s' % (P.cname, name))

    # -------------------------------------------------------------- constructors
    def construct(self, P, n, t, cat, args):
        tr = self.tr
        cty = tr.ctype_t(t)
        A = args
        def same(i=0):
            return len(A) > i and tr.category(P.ty(A[i])) == cat
        if cat == 'iter':
            if not A: return '((%s)0)' % cty
            return P.ex(A[0])
        if cat == 'sp':
            if not A: return '((%s)0)' % cty
            if len(A) == 1: return '((%s)%s)' % (cty, P.ex(A[0]))
        if cat == 'sv':
            if not A: return '((sv){0, 0})'
            if len(A) == 1:
                if same(): return P.ex(A[0])
                return self.as_sv(P, A[0])
            if len(A) == 2: return '((sv){%s, %s})' % (P.ex(A[0]), P.ex(A[1]))
        if cat == 'str':
            if not A: return 'str_empty()'
            c0 = tr.category(P.ty(A[0]))
            if len(A) == 1 or (len(A) == 2 and A[1].get('kind') == 'CXXDefaultArgExpr'):
                if c0 == 'str' and not P.is_glvalue(A[0]):
                    return P.ex(A[0])          # move / elided copy of a temporary
                if c0 == 'str' and P.ty(A[0]).kind == 'rref':
                    return P.ex(A[0])
                return 'str_from_sv(%s)' % self.as_sv(P, A[0])
            if len(A) >= 2 and c0 in ('iter', 'ptr') and tr.category(P.ty(A[1])) in ('iter', 'ptr'):
                return 'str_from_range(%s, %s)' % (P.ex(A[0]), P.ex(A[1]))
            if len(A) >= 2 and c0 == 'scalar':
                return 'str_fill(%s, %s)' % (P.ex(A[0]), P.ex(A[1]))
            if len(A) >= 2 and c0 == 'ptr':
                return 'str_from_sv((sv){%s, %s})' % (P.ex(A[0]), P.ex(A[1]))
        if cat == 'opt':
            if not A: return '((%s){0})' % cty
            return self.to_opt(P, t, A[0])
        if cat == 'stdfn':
            if not A: return '((struct stdfn){0, 0})'
            x = P.skip(A[0])
            while x.get('kind') in ('MaterializeTemporaryExpr', 'CXXBindTemporaryExpr', 'ImplicitCastExpr') and x.get('inner'): x = P.skip(x['inner'][0])
            if x.get('kind') == 'LambdaExpr': return tr.lambda_expr(P, x, as_stdfn=True)
            if same(): return P.ex(A[0])
        if cat == 'umap':
            if not A: return '((%s){0})' % cty
            if same() and not P.is_glvalue(A[0]): return P.ex(A[0])
        if cat == 'umapiter':
            if len(A) == 1: return P.ex(A[0])
            if not A: return '((%s)0)' % cty
        if cat == 'vec':
            m = self.M(t)
            if len(A) == 2 and tr.category(P.ty(A[0])) in ('riter', 'iter', 'ptr') and tr.category(P.ty(A[1])) in ('riter', 'iter', 'ptr'):
                # range constructor: a new vector of the right size whose storage is an opaque (undereferenceable) object
                tr.dropped.add('vector range construction: element values are opaque (the storage pointer is not dereferenceable)')
                if tr.category(P.ty(A[0])) == 'riter':
                    n_ = '(unsigned long)(%s.base - %s.base)' % (P.paren(P.ex(A[0])), P.paren(P.ex(A[1])))
                else:
                    # iterators into storage: the range must be valid (shim_range_len asserts it)
                    tmp = P.new_temp(lambda nm: 'unsigned long %s' % nm)
                    return '(%s = shim_range_len(%s, %s, sizeof(%s)), (%s){(%s *)shim_opaque_ptr(), %s, %s})' % (
                        tmp, P.ex(A[0]), P.ex(A[1]), tr.ctype_t(self.elem(t)), cty, tr.ctype_t(self.elem(t)), tmp, tmp)
                return '((%s){(%s *)shim_opaque_ptr(), %s, %s})' % (cty, tr.ctype_t(self.elem(t)), n_, n_)
            if not A: return '((%s){0, 0, 0})' % cty
            if same() and not P.is_glvalue(A[0]): return P.ex(A[0])
            if same():
                tr.dropped.add('vector copy construction is a shallow struct copy in the C model')
                return P.ex(A[0])
        if cat == 'il':
            if not A: return '((%s){0, 0})' % cty
            if same(): return P.ex(A[0])
        if cat == 'riter':
            if same(): return P.ex(A[0])
            if len(A) == 1: return '((%s){%s})' % (cty, P.ex(A[0]))
        if cat == 'nullopt':
            return '0'
        if cat == 'chrono':
            if not A: return '0L'
            if len(A) == 1: return self.chrono_scaled(P, A[0], tr.chrono_den(t))
        if cat == 'atomic':
            if not A: return '0'
            if len(A) == 1: return P.ex(A[0])
        if cat in ('scalar', 'enum', 'ptr'):
            if not A: return '0'
            return P.ex(A[0])
        if cat == 'sstream':
            if not A: return 'strbuf_empty()'
        if cat == 'fstream':
            if not A: return '((vfile){0})'
            if len(A) == 2: return 'vfile_open_path(%s)' % P.ex(A[1])
        if cat == 'opaque':
            if not A: return '((%s){0})' % cty
            if len(A) == 1 and same(): return P.ex(A[0])
        raise Unsupported('%s: no library mapping for constructing %r from %d args' % (P.cname, t, len(A)))

    def init_list(self, P, n, t, cat, items):
        if cat == 'sv':
            if not items: return '((sv){0, 0})'
            if len(items) == 2: return '((sv){%s, %s})' % (P.ex(items[0]), P.ex(items[1]))
        if cat == 'opt':
            if not items: return '((%s){0})' % self.tr.ctype_t(t)
        if cat == 'str' and not items:
            return 'str_empty()'
        if cat == 'vec' and not items:
            return '((%s){0, 0, 0})' % self.tr.ctype_t(t)
        raise Unsupported('%s: init list of %r with %d items' % (P.cname, t, len(items)))

    def default_init_stmt(self, P, t, cat, name):
        if cat == 'str': return '%s = str_empty();' % name
        if cat == 'sstream': return '%s = strbuf_empty();' % name
        return ';'

    # -------------------------------------------------------------- free functions
    FREE = {
        'tolower': 'shim_tolower', 'toupper': 'shim_toupper', 'isdigit': 'shim_isdigit', 'isalpha': 'shim_isalpha',
        'isalnum': 'shim_isalnum', 'isspace': 'shim_isspace',
        'std::tolower': 'shim_tolower', 'std::toupper': 'shim_toupper', 'std::isdigit': 'shim_isdigit',
        'std::isalpha': 'shim_isalpha', 'std::isalnum': 'shim_isalnum', 'std::isspace': 'shim_isspace',
    }
    THROWING = {'stoul': 'shim_stoul', 'stoi': 'shim_stoi', 'stol': 'shim_stol', 'stod': 'shim_stod', 'stof': 'shim_stof',
                'stoull': 'shim_stoul', 'stoll': 'shim_stol'}

    def free_function(self, P, n, name, args):
        if name in self.FREE:
            return '%s(%s)' % (self.FREE[name], ', '.join(P.ex(a) for a in args))
        if name in self.THROWING:
            P.note_throw()
            rest = [a for a in args[1:] if a.get('kind') != 'CXXDefaultArgExpr']
            if rest: raise Unsupported('%s: %s with position/base arguments' % (P.cname, name))
            return '%s(%s)' % (self.THROWING[name], self.as_sv(P, args[0]))
        if name == 'static_pointer_cast' and len(args) == 1 and self.tr.category(P.ty(args[0])) == 'sp':
            # shared_ptr<Base> -> shared_ptr<Derived>: single inheritance puts the base sub-object at offset 0 in the C model
            return '((%s)(%s))' % (self.tr.ctype_t(P.ty(n)), P.ex(args[0]))
        if name == 'exists' and len(args) == 1 and self.tr.category(P.ty(args[0])) == 'opaque':
            return 'g_fs_exists'
        if name == 'count' and len(args) == 3 and self.tr.category(P.ty(args[0])) in ('iter', 'ptr'):
            return 'shim_count_char(%s, %s, %s)' % (P.ex(args[0]), P.ex(args[1]), P.ex(args[2]))
        if name == 'transform' and len(args) == 4 and self.tr.category(P.ty(args[0])) in ('iter', 'ptr'):
            a = [P.ex(x) for x in args]
            byref = False
            for c in self.tr.fn_nodes:
                if self.tr.cname_of.get(c.get('id')) == a[3]:
                    ps = self.tr.fn_params(c)
                    byref = bool(ps) and self.tr.tparse(ps[0]['type']).is_ref()
                    break
            if byref:
                # the mapping function takes its character by reference (char&): pass the address of the source character
                a[3] = '(char (*)(char))0, ' + a[3]
            m = re.match(r"^\((.+)\.data \+ (.+)\.len\)$", a[1])
            if a[0] == a[2] and a[0].endswith('.data') and m and m.group(1) == m.group(2) == a[0][:-5]:
                # in-place transform of a whole std::string: the content class of the string changes with it; the new class is a
                # function of the old one and of the mapping (uninterpreted function, one per mapping function)
                return 'str_transform_inplace(&(%s), %s, %d)' % (m.group(1), a[3] if byref else a[3] + ', (char (*)(char *))0', self.xform_tag(a[3].split(', ')[-1] if byref else a[3]))
            return 'shim_transform_char2(%s, %s, %s, %s)' % (a[0], a[1], a[2], a[3] if byref else a[3] + ', (char (*)(char *))0')
        if name in ('zero',) and not args and self.tr.category(P.ty(n)) == 'chrono':
            return '0L'
        if name == 'now' and not args:
            return 'shim_now_ns()'
        if name == 'duration_cast' and len(args) == 1:
            return self.chrono_scaled(P, args[0], self.tr.chrono_den(P.ty(n)))
        if name == 'to_string' and len(args) == 1 and self.tr.category(P.ty(args[0])) == 'scalar':
            return 'str_from_num((double)%s)' % P.ex(args[0])
        if name in ('move', 'forward'):
            return P.ex(args[0])
        if name in ('make_shared', 'make_unique'):
            # heap object whose fields are opaque: a non-null pointer that must not be dereferenced by the code under proof
            self.tr.dropped.add('make_shared/make_unique: the new object is opaque (non-null, not dereferenceable); constructor arguments are not evaluated')
            t = P.ty(n)
            return '((%s)shim_opaque_ptr())' % self.tr.ctype_t(t)
        if name == 'find_if' and len(args) == 3:
            return self.find_if(P, n, args)
        if name == 'rand' and not args:
            return 'shim_rand()'      # <cstdlib> rand(): any value in [0, RAND_MAX]
        if name in ('max', 'min') and not args:
            # std::numeric_limits<T>::max() / min() of the integer types
            lim = {'int': ('2147483647', '(-2147483647 - 1)'), 'long': ('9223372036854775807L', '(-9223372036854775807L - 1)'),
                   'unsigned long': ('18446744073709551615UL', '0UL'), 'unsigned int': ('4294967295U', '0U')}.get(n.get('type', {}).get('qualType'))
            if lim: return lim[0] if name == 'max' else lim[1]
        if name == 'round' and len(args) == 1 and n.get('type', {}).get('qualType') == 'float':
            return 'roundf(%s)' % P.ex(args[0])      # std::round(float) is the float overload
        if name in ('memcpy', 'memset', 'memcmp', 'strlen', 'abs', 'fabs', 'fabsf', 'floor', 'floorf', 'ceil', 'sqrt', 'round', 'roundf'):
            return '%s(%s)' % (name, ', '.join(P.ex(a) for a in args))
        if name in ('get') and len(args) == 1 and self.tr.category(P.ty(args[0])) == 'pair':
            raise Unsupported('std::get')
        raise Unsupported('%s: no library mapping for function %s' % (P.cname, name))
