"""Statement / expression printer of cxx2c (see cxx2c.py)."""
import re
from cxx2c import Unsupported, sanitize, short_ns, C_KEYWORDS
from cxxtypes import T

BINOPS = {'+', '-', '*', '/', '%', '<', '>', '<=', '>=', '==', '!=', '&&', '||', '&', '|', '^', '<<', '>>', ','}
ASSIGNOPS = {'=', '+=', '-=', '*=', '/=', '%=', '&=', '|=', '^=', '<<=', '>>='}

def c_char(v):
    v = int(v)
    if v == 39: return "'\\''"
    if v == 92: return "'\\\\'"
    if 32 <= v < 127: return "'%s'" % chr(v)
    if v < 0: v += 256
    return "((char)%d)" % (v if v < 128 else v - 256)

def c_string(s):
    out = []
    for ch in s.encode('utf-8', 'surrogateescape'):
        if ch == 34: out.append('\\"')
        elif ch == 92: out.append('\\\\')
        elif 32 <= ch < 127: out.append(chr(ch))
        else: out.append('\\%03o' % ch)
    return '"' + ''.join(out) + '"'

class FnPrinter:
    def __init__(self, tr, node, cname):
        self.tr = tr; self.node = node; self.cname = cname
        self.temps = []          # hoisted temporaries: (ctype decl text)
        self.loop_no = 0
        self.ret_t = None
        self.may_throw = False
        self.indent = 1
        self.local_names = {}    # decl id -> C name
        self.used_names = set()
        self.try_depth = 0
        self.catch_labels = []
        self.canary_no = 0
        self.is_ctor = node['kind'] == 'CXXConstructorDecl'
        self.ret_ref = False
        self.uncontracted_loops = 0
        self.stmt_counts = {}
        self.temp_loops = {}

    # ------------------------------------------------------------- helpers
    def fail(self, n, why):
        loc = n.get('range', {}).get('begin', {})
        if 'expansionLoc' in loc: loc = loc['expansionLoc']
        raise Unsupported('%s: %s (node %s at line %s col %s in %s)' % (self.cname, why, n.get('kind'), loc.get('line'), loc.get('col'), self.tr.srcinfo.get(self.cname, ('?',))[0]))

    def ty(self, n):
        return self.tr.tparse(n['type'])

    def cat(self, n):
        return self.tr.category(self.ty(n))

    def new_temp(self, ctype_decl_fn):
        # temporaries are declared at the start of the innermost enclosing loop body (so that they need not be listed in
        # that loop's assigns clause) or at the start of the function
        # cbmc 6.11 dfcc does not put locals declared inside a loop that has a contract into the loop's write set, so
        # temporaries are declared at function level and appended mechanically to the assigns clause of every enclosing
        # loop that has one (see print_function)
        self.temp_count = getattr(self, 'temp_count', 0) + 1
        name = '__t%d' % (self.temp_count - 1)
        self.temps.append(ctype_decl_fn(name))
        for k in getattr(self, 'loop_stack', []):
            self.temp_loops.setdefault(k, []).append(name)
        return name

    def loop_body(self, n, out):
        """print statement n as the braced body of a loop, with the temporaries created inside declared at its start"""
        if not hasattr(self, 'loop_stack'): self.loop_stack = []
        self.loop_stack.append(self.current_loop)
        out.append(self.ind() + '{')
        mark = len(out)
        self.indent += 1
        if self.tr.hooks and hasattr(self.tr.hooks, 'loop_ghost'):
            for g in self.tr.hooks.loop_ghost(self.cname, self.current_loop): out.append(self.ind() + g + ' /* ghost */')
        if n.get('kind') == 'CompoundStmt':
            stopped = False
            for c in n.get('inner', []):
                if stopped:
                    self.loop_no += self.skip_counts(c); continue
                self.stmt(c, out)
                if getattr(self, 'stop_block', False):
                    # branch-cut ... stop: the paths that pass this point are verified in another slice
                    self.stop_block = False; stopped = True
                    out.append(self.ind() + '__CPROVER_assume(0); /* the rest of this block is verified in another slice */')
        else:
            self.stmt(n, out)
        self.indent -= 1
        out.append(self.ind() + '}')
        self.loop_stack.pop()

    def lname(self, decl_id, hint=None):
        if decl_id in self.local_names: return self.local_names[decl_id]
        d = self.tr.decl.get(decl_id, {})
        name = hint or d.get('name') or ('__v%s' % decl_id[-4:])
        if name in C_KEYWORDS: name += '_'
        base = name; k = 2
        # shadowing in nested scopes is legal C as well; only avoid clashes with different decls in one function
        # by renaming later declarations of the same name (keeps first spelling for contracts)
        while name in self.used_names:
            name = '%s_%d' % (base, k); k += 1
        self.used_names.add(name)
        self.local_names[decl_id] = name
        return name

    def is_glvalue(self, n):
        return n.get('valueCategory') in ('lvalue', 'xvalue')

    def addr(self, n):
        """C expression for the address of glvalue expression n (or a pointer to a temporary holding prvalue n)"""
        if self.is_glvalue(n):
            e = self.ex(n)
            if e.startswith('(*') and e.endswith(')') and self._balanced(e[2:-1]):
                return e[2:-1]
            return '&(%s)' % e
        # prvalue: materialise
        t = self.ty(n)
        tmp = self.new_temp(lambda nm: self.tr.decl_text_t(t.strip_ref(), nm))
        return '(%s = %s, &%s)' % (tmp, self.ex(n), tmp)

    @staticmethod
    def _balanced(s):
        d = 0
        for ch in s:
            if ch == '(': d += 1
            elif ch == ')':
                d -= 1
                if d < 0: return False
        return d == 0

    def skip(self, n):
        """strip wrappers that do not change meaning in the C model"""
        while n.get('kind') in ('ExprWithCleanups', 'CXXBindTemporaryExpr', 'ConstantExpr', 'SubstNonTypeTemplateParmExpr', 'FullExpr') or \
              (n.get('kind') in ('ImplicitCastExpr', 'CXXStaticCastExpr', 'CXXFunctionalCastExpr', 'CStyleCastExpr', 'CXXConstCastExpr') and n.get('castKind') in ('NoOp', 'ConstructorConversion', 'UserDefinedConversion', 'DerivedToBase', 'UncheckedDerivedToBase') and n.get('castKind') != 'DerivedToBase'):
            n = n['inner'][-1] if n.get('kind') != 'ConstantExpr' else n['inner'][0]
        return n

    # ------------------------------------------------------------- expressions
    def ex(self, n):
        k = n.get('kind')
        m = getattr(self, 'ex_' + k, None)
        if m is None:
            self.fail(n, 'unsupported expression kind')
        return m(n)

    def ex_IntegerLiteral(self, n):
        v = n['value']; t = self.ty(n).name
        suf = {'unsigned int': 'U', 'long': 'L', 'unsigned long': 'UL', 'long long': 'LL', 'unsigned long long': 'ULL'}.get(t, '')
        return v + suf
    def ex_CharacterLiteral(self, n): return c_char(n['value'])
    def ex_FloatingLiteral(self, n):
        v = n['value']
        if not re.search(r"[.eEn]", v): v += '.0'
        return v + ('f' if self.ty(n).name == 'float' else '')
    def ex_CXXBoolLiteralExpr(self, n): return '1' if n['value'] else '0'
    def ex_CXXNullPtrLiteralExpr(self, n): return '((void*)0)'
    def ex_StringLiteral(self, n):
        v = n['value']  # already a C-like quoted literal
        return v
    def ex_ParenExpr(self, n): return '(%s)' % self.ex(n['inner'][0])
    def ex_ConstantExpr(self, n): return self.ex(n['inner'][0])
    def ex_SubstNonTypeTemplateParmExpr(self, n): return self.ex(n['inner'][-1])
    def ex_ExprWithCleanups(self, n): return self.ex(n['inner'][0])
    def ex_CXXBindTemporaryExpr(self, n): return self.ex(n['inner'][0])
    def ex_CXXDefaultArgExpr(self, n):
        self.fail(n, 'default argument without callee context')
    def ex_CXXThisExpr(self, n):
        env = self.node.get('_lambda_env')
        if env and 'this' in env[1]: return '__c->__this'
        return 'self'
    def ex_ImplicitValueInitExpr(self, n):
        return self.zero_value(self.ty(n))
    def ex_CXXScalarValueInitExpr(self, n):
        return self.zero_value(self.ty(n))
    def ex_GNUNullExpr(self, n): return '0'

    def zero_value(self, t):
        cat = self.tr.category(t)
        if cat in ('scalar', 'enum'): return '0'
        if cat in ('ptr', 'sp', 'iter'): return '((%s)0)' % self.tr.ctype_t(t)
        return '((%s){0})' % self.tr.ctype_t(t)

    def ex_DeclRefExpr(self, n):
        r = n['referencedDecl']; rk = r['kind']; rid = r['id']
        if rk == 'EnumConstantDecl':
            return self.enum_const(rid, r)
        if rk == 'VarDecl' and rid not in self.tr.decl:
            tq = r.get('type', {}).get('qualType', '')
            STD_CONST = {'seekdir': {'beg': 0, 'cur': 1, 'end': 2},
                         'openmode': {'app': 1, 'ate': 2, 'binary': 4, 'in': 8, 'out': 16, 'trunc': 32},
                         'iostate': {'goodbit': 0, 'badbit': 1, 'eofbit': 2, 'failbit': 4}}
            for k, tab in STD_CONST.items():
                if k in tq and r.get('name') in tab: return str(tab[r['name']])
            if r.get('name') == 'npos': return '((unsigned long)-1)'
            if r.get('name') == 'nullopt': return '0'
            # node ids of two dumps do not line up: a static data member / namespace-scope variable looked up by (name, type)
            cands = [d for d in self.tr.decl.values() if d.get('kind') == 'VarDecl' and d.get('name') == r.get('name')
                     and d.get('type', {}).get('qualType') == r.get('type', {}).get('qualType') and (d.get('storageClass') == 'static' or self.tr.parent.get(d['id'], {}).get('kind') in ('CXXRecordDecl', 'NamespaceDecl'))]
            ids = {d['id'] for d in cands}
            if len(ids) >= 1 and len({self.tr.qname_of.get(self.tr.parent.get(d['id'], {}).get('id')) for d in cands}) == 1:
                n2 = dict(n); n2['referencedDecl'] = dict(r); n2['referencedDecl']['id'] = cands[0]['id']
                return self.ex_DeclRefExpr(n2)
            self.fail(n, 'reference to variable %s that is not loaded' % r.get('name'))
        env = self.node.get('_lambda_env')
        if env and rid in env[1]:
            fname, byref = env[1][rid]
            return '(*__c->%s)' % fname if byref else '__c->%s' % fname
        if rk == 'VarDecl' and self.node.get('_lambda_free') and rid not in self.local_names and rid in self.tr.decl and not self._is_global(self.tr.decl[rid]):
            # constant of the enclosing function used inside a lambda without being captured: its value
            dd = self.tr.decl[rid]
            init = [c for c in dd.get('inner', []) if c and c.get('kind') not in ('FullComment',)]
            if init and self.tr.tparse(dd['type']).const:
                return '(%s)' % self.ex(init[-1])
            self.fail(n, 'use of enclosing local %s inside a lambda without capture' % r.get('name'))
        if rk in ('VarDecl', 'ParmVarDecl', 'BindingDecl', 'DecompositionDecl'):
            d = self.tr.decl.get(rid)
            tnode = (d or r)['type']
            t = self.tr.tparse(tnode)
            if rid in self.tr.globals:
                name = self.tr.globals[rid][0]
            elif d is not None and self._is_global(d):
                name = self.tr.use_global(d)
            else:
                name = self.lname(rid, r.get('name'))
            if t.is_ref():
                return '(*%s)' % name
            return name
        if rk in ('FunctionDecl', 'CXXMethodDecl'):
            return self.tr.fn_ref(rid, r, self)
        self.fail(n, 'reference to %s' % rk)

    def _is_global(self, d):
        if d.get('kind') != 'VarDecl': return False
        p = self.tr.parent.get(d['id'])
        sc = d.get('storageClass')
        if sc == 'static': return True
        if p is None: return True
        return p.get('kind') in ('NamespaceDecl', 'TranslationUnitDecl', 'CXXRecordDecl')

    def enum_const(self, rid, r):
        d = self.tr.decl.get(rid)
        par = self.tr.parent.get(rid)
        STD_ENUMS = {'_S_beg': 0, '_S_cur': 1, '_S_end': 2, '_S_app': 1, '_S_ate': 2, '_S_bin': 4, '_S_in': 8, '_S_out': 16, '_S_trunc': 32,
                     '_S_goodbit': 0, '_S_badbit': 1, '_S_eofbit': 2, '_S_failbit': 4}
        if r.get('name') in STD_ENUMS and 'std::_Ios' in r.get('type', {}).get('qualType', '') + r.get('type', {}).get('desugaredQualType', ''):
            return str(STD_ENUMS[r['name']])
        if par is None or par['id'] not in self.tr.qname_of:
            # enumerator of an enum that was not loaded: use the type of the reference
            q = self.tr.tparse(r['type']).name
        else:
            q = self.tr.qname_of[par['id']]
        if q not in self.tr.enums:
            raise Unsupported('%s: enum %s not loaded' % (self.cname, q))
        self.tr.use_enum(q)
        return self.tr.enum_const_cname(q, r['name'])

    def ex_MemberExpr(self, n):
        base = n['inner'][0]
        mid = n.get('referencedMemberDecl')
        md = self.tr.decl.get(mid)
        name = n['name']
        if md is not None and md.get('kind') in ('CXXMethodDecl',):
            self.fail(n, 'bound member function outside a call')
        if md is not None and md.get('kind') == 'VarDecl':   # static data member
            return self.tr.use_global(md)
        bt = self.ty(base)
        if n.get('isArrow'):
            pt = bt.to if bt.kind == 'ptr' else None
            bcat = self.tr.category(bt)
            if bcat == 'sp' or (bcat not in ('ptr',)):
                # smart pointer -> raw pointer; operator-> calls are CXXOperatorCallExpr normally
                pass
            b = self.ex(base)
            obj_t = pt
            e = '%s->%s' % (self.paren(b), self.field_name(obj_t, name, md))
        else:
            b = self.ex(base)
            e = '%s.%s' % (self.paren(b), self.field_name(bt, name, md))
        ft = self.tr.tparse(md['type']) if md is not None else None
        if ft is not None and ft.is_ref():
            return '(*%s)' % e
        return e

    def field_name(self, obj_t, name, md):
        # mapped library structs (pair etc.) handled by table
        if obj_t is not None:
            cat = self.tr.category(obj_t)
            if cat == 'pair':
                return name
            if cat == 'record' and md is not None:
                # field of a base class?
                owner = self.tr.parent.get(md['id'])
                oq = self.tr.qname_of.get(owner['id']) if owner else None
                path = self.base_path(obj_t.strip_ref().name, oq)
                return path + name
        return name

    def base_path(self, q, owner_q):
        if owner_q is None or q == owner_q or q not in self.tr.records: return ''
        node = self.tr.records[q]
        for i, b in enumerate(node.get('bases', [])):
            bt = self.tr.tparse(b['type']); self.tr.category(bt)
            bq = bt.name
            fname = '__base' if i == 0 else '__base%d' % i
            if bq == owner_q: return fname + '.'
            sub = self.base_path(bq, owner_q)
            if sub or bq == owner_q: return fname + '.' + sub
        return ''

    @staticmethod
    def paren(e):
        if re.match(r"^[A-Za-z_][A-Za-z_0-9]*$", e): return e
        if e.startswith('(') and e.endswith(')') and FnPrinter._balanced(e[1:-1]): return e
        return '(%s)' % e

    def ex_ImplicitCastExpr(self, n):
        ck = n.get('castKind'); sub = n['inner'][0]
        if ck == 'LValueToRValue' and n.get('type', {}).get('qualType', '').replace('const ', '').strip() == 'bool':
            # a C++ bool object only ever holds 0 or 1; memory that cbmc makes up (is_fresh, havoc) may hold any byte in a
            # _Bool, and cbmc then reads it inconsistently (`b ? 1 : 0` vs `c = b`; measured).  Every read of a bool object
            # is normalised, so all reads agree and the spurious states cannot be told apart from genuine ones.
            return '(%s != 0)' % self.paren(self.ex(sub))
        if ck in ('LValueToRValue', 'NoOp', 'FunctionToPointerDecay', 'ConstructorConversion', 'UserDefinedConversion'):
            return self.ex(sub)
        if ck == 'ArrayToPointerDecay':
            s = self.skip(sub)
            if s.get('kind') == 'StringLiteral':
                return self.ex(s)
            return '(&(%s)[0])' % self.ex(sub) if False else self.ex(sub)
        if ck in ('IntegralCast', 'IntegralToFloating', 'FloatingToIntegral', 'FloatingCast', 'IntegralToBoolean',
                  'FloatingToBoolean', 'BooleanToSignedIntegral', 'PointerToBoolean', 'BitCast', 'NullToPointer',
                  'PointerToIntegral', 'IntegralToPointer'):
            t = self.ty(n)
            if ck in ('IntegralToBoolean', 'FloatingToBoolean', 'PointerToBoolean'):
                return '(%s != 0)' % self.paren(self.ex(sub))
            if ck == 'NullToPointer':
                cat = self.tr.category(t)
                if cat in ('ptr', 'sp', 'iter'): return '((%s)0)' % self.tr.ctype_t(t)
                return self.zero_value(t)
            return '((%s)%s)' % (self.tr.ctype_t(t), self.paren(self.ex(sub)))
        if ck in ('DerivedToBase', 'UncheckedDerivedToBase'):
            # pointer or glvalue conversion to (first) base
            st = self.ty(sub); dt = self.ty(n)
            sc = self.tr.category(st.to if st.kind == 'ptr' else st)
            if sc not in ('record',):
                return self.ex(sub)      # library types map base and derived to the same shim type
            if st.kind == 'ptr':
                path = self.base_path(st.to.name, dt.to.name)
                if not path: self.fail(n, 'base path %s -> %s' % (st, dt))
                return '(&%s->%s)' % (self.paren(self.ex(sub)), path[:-1])
            path = self.base_path(st.strip_ref().name, dt.strip_ref().name)
            if not path: self.fail(n, 'base path %s -> %s' % (st, dt))
            return '%s.%s' % (self.paren(self.ex(sub)), path[:-1])
        self.fail(n, 'cast kind %s' % ck)

    def ex_CStyleCastExpr(self, n): return self.ex_explicit_cast(n)
    def ex_CXXStaticCastExpr(self, n): return self.ex_explicit_cast(n)
    def ex_CXXFunctionalCastExpr(self, n): return self.ex_explicit_cast(n)
    def ex_CXXConstCastExpr(self, n): return self.ex(n['inner'][0])
    def ex_CXXReinterpretCastExpr(self, n):
        t = self.ty(n)
        return '((%s)%s)' % (self.tr.ctype_t(t), self.paren(self.ex(n['inner'][0])))
    def ex_explicit_cast(self, n):
        ck = n.get('castKind'); sub = n['inner'][0]
        if ck in ('NoOp', 'ConstructorConversion', 'UserDefinedConversion', 'LValueToRValue'):
            return self.ex(sub)
        if ck == 'ToVoid':
            return '((void)%s)' % self.paren(self.ex(sub))
        return self.ex_ImplicitCastExpr(n)

    def ex_UnaryOperator(self, n):
        op = n['opcode']; sub = n['inner'][0]
        e = self.ex(sub)
        if op in ('++', '--'):
            return ('%s%s' % (self.paren(e), op)) if n.get('isPostfix') else ('%s%s' % (op, self.paren(e)))
        if op == '&':
            return self.addr(sub)
        if op == '*':
            return '(*%s)' % self.paren(e)
        if op in ('-', '+', '!', '~'):
            return '(%s%s)' % (op, self.paren(e))
        self.fail(n, 'unary operator %s' % op)

    def ex_BinaryOperator(self, n):
        op = n['opcode']; a, b = n['inner']
        if op in BINOPS or op in ASSIGNOPS:
            if op == '=':
                ta = self.ty(a)
                cat = self.tr.category(ta)
                # plain scalar / pointer / trivially copyable struct assignment
            ea = self.ex(a); eb = self.ex(b)
            if op == ',':
                return '(%s, %s)' % (ea, eb)
            return '(%s %s %s)' % (ea, op, eb)
        self.fail(n, 'binary operator %s' % op)
    def ex_CompoundAssignOperator(self, n): return self.ex_BinaryOperator(n)

    def ex_ConditionalOperator(self, n):
        c, a, b = n['inner']
        return '(%s ? %s : %s)' % (self.ex(c), self.ex(a), self.ex(b))

    def ex_ArraySubscriptExpr(self, n):
        a, b = n['inner']
        return '%s[%s]' % (self.paren(self.ex(a)), self.ex(b))

    def ex_MaterializeTemporaryExpr(self, n):
        sub = n['inner'][0]
        t = self.ty(n)
        tmp = self.new_temp(lambda nm: self.tr.decl_text_t(t.strip_ref(), nm))
        return '(*(%s = %s, &%s))' % (tmp, self.ex(sub), tmp)

    def ex_InitListExpr(self, n):
        t = self.ty(n)
        cat = self.tr.category(t)
        items = [c for c in n.get('inner', []) if c]
        if cat == 'record':
            fields = self.tr.record_fields(t.name)
            if len(items) == 1:
                # T{ x } with x of type T is a copy, not aggregate initialisation of the first field
                try:
                    it = self.ty(items[0]).strip_ref()
                    if self.tr.category(it) == 'record' and self.tr.ctype_t(it) == self.tr.ctype_t(t):
                        return self.init_value(items[0])
                except Exception:
                    pass
            vals = []
            for i, c in enumerate(items):
                vals.append(self.init_value(c))
            return '((%s){%s})' % (self.tr.ctype_t(t), ', '.join(vals) if vals else '0')
        if cat in ('scalar', 'enum', 'ptr'):
            return self.ex(items[0]) if items else '0'
        if cat in ('sv', 'str', 'vec', 'opt', 'pair', 'il', 'stdarray', 'carray'):
            return self.tr.lib.init_list(self, n, t, cat, items)
        self.fail(n, 'init list for %r' % t)

    def init_value(self, c):
        """value initialising a field/variable from expression c (copy semantics of the C model)"""
        return self.ex(c)

    def ex_CXXStdInitializerListExpr(self, n):
        sub = self.skip(n['inner'][0])
        # MaterializeTemporaryExpr of a const T[N] InitListExpr
        while sub.get('kind') in ('MaterializeTemporaryExpr',):
            sub = self.skip(sub['inner'][0])
        t = self.ty(n)
        et = t.args[0]
        items = [c for c in sub.get('inner', []) if c] if sub.get('kind') == 'InitListExpr' else None
        if items is None:
            self.fail(n, 'initializer_list backing array')
        cty = self.tr.ctype_t(et)
        if not items:
            return '((%s){0, 0})' % self.tr.ctype_t(t)
        tmp = self.new_temp(lambda nm: '%s %s[%d]' % (cty, nm, len(items)))
        assigns = ', '.join('%s[%d] = %s' % (tmp, i, self.ex(c)) for i, c in enumerate(items))
        return '(%s, (%s){%s, %d})' % (assigns, self.tr.ctype_t(t), tmp, len(items))

    def ex_UserDefinedLiteral(self, n):
        # "..."sv
        t = self.ty(n); cat = self.tr.category(t)
        lit = None
        for c in n['inner'][1:]:
            s = self.skip(c)
            while s.get('kind') == 'ImplicitCastExpr': s = s['inner'][0]
            if s.get('kind') == 'StringLiteral': lit = s
        if lit is None: self.fail(n, 'user defined literal')
        text = lit['value']
        if cat == 'sv':
            return '((sv){%s, sizeof(%s) - 1})' % (text, text)
        if cat == 'str':
            return 'str_from_sv(((sv){%s, sizeof(%s) - 1}))' % (text, text)
        self.fail(n, 'user defined literal of %r' % t)

    # calls ------------------------------------------------------------
    def call_args(self, callee_node, args, param_types=None):
        """print arguments against the callee's parameter types (references -> addresses)"""
        out = []
        if callee_node is not None:
            params = self.tr.fn_params(callee_node)
            ptypes = [self.tr.tparse(p['type']) for p in params]
        else:
            params = []; ptypes = param_types or []
        for i, a in enumerate(args):
            pt = ptypes[i] if i < len(ptypes) else None
            if a.get('kind') == 'CXXDefaultArgExpr':
                if i >= len(params): self.fail(a, 'default argument of unknown callee')
                dflt = [c for c in params[i].get('inner', []) if c]
                if not dflt: self.fail(a, 'default argument expression missing')
                a = dflt[-1]
            if pt is not None and pt.is_ref():
                out.append(self.addr(self.strip_materialize_for_ref(a)))
            else:
                out.append(self.ex(a))
        return out

    def strip_materialize_for_ref(self, a):
        return a

    def ex_CallExpr(self, n):
        callee = n['inner'][0]; args = n['inner'][1:]
        c = self.skip(callee)
        while c.get('kind') in ('ImplicitCastExpr', 'ParenExpr'): c = c['inner'][0]
        if c.get('kind') == 'DeclRefExpr' and c['referencedDecl'].get('kind') in ('FunctionDecl', 'CXXMethodDecl'):
            r = c['referencedDecl']
            return self.tr.call_function(self, n, r, None, args)
        # call through a function pointer (member or variable)
        ct = self.ty(callee)
        ft = ct.to if ct.kind == 'ptr' else ct
        if ft.kind != 'func': self.fail(n, 'indirect call through %r' % ct)
        a = self.call_args(None, args, param_types=ft.params)
        return '(%s)(%s)' % (self.ex(callee), ', '.join(a))

    def ex_CXXMemberCallExpr(self, n):
        callee = n['inner'][0]; args = n['inner'][1:]
        c = callee
        while c.get('kind') in ('ParenExpr',): c = c['inner'][0]
        if c.get('kind') != 'MemberExpr': self.fail(n, 'member call through %s' % c.get('kind'))
        obj = c['inner'][0]
        mid = c.get('referencedMemberDecl')
        return self.tr.call_method(self, n, c, obj, mid, args)

    def ex_CXXOperatorCallExpr(self, n):
        callee = n['inner'][0]; args = n['inner'][1:]
        c = callee
        while c.get('kind') in ('ImplicitCastExpr', 'ParenExpr'): c = c['inner'][0]
        if c.get('kind') != 'DeclRefExpr': self.fail(n, 'operator call callee')
        r = c['referencedDecl']
        return self.tr.call_operator(self, n, r, args)

    def ex_CXXConstructExpr(self, n):
        return self.tr.construct(self, n, [a for a in n.get('inner', []) if a])
    def ex_CXXTemporaryObjectExpr(self, n):
        return self.tr.construct(self, n, [a for a in n.get('inner', []) if a])

    def ex_CXXNewExpr(self, n):
        return self.tr.new_expr(self, n)
    def ex_CXXDeleteExpr(self, n):
        self.tr.dropped.add('delete expressions (deallocation is not modelled)')
        return '((void)0)'
    def ex_LambdaExpr(self, n):
        return self.tr.lambda_expr(self, n)
    def ex_CXXFunctionalCastExpr_lambda(self, n): return self.ex(n['inner'][0])
    def ex_CXXThrowExpr(self, n):
        return self.tr.throw_expr(self, n)
    def ex_UnaryExprOrTypeTraitExpr(self, n):
        if n.get('name') == 'sizeof':
            if 'argType' in n:
                return 'sizeof(%s)' % self.tr.ctype(n['argType'])
            return 'sizeof(%s)' % self.ex(n['inner'][0])
        self.fail(n, 'type trait %s' % n.get('name'))

    # ------------------------------------------------------------- statements
    def ind(self): return '  ' * self.indent

    def stmt(self, n, out):
        k = n.get('kind')
        m = getattr(self, 'st_' + k, None)
        mark = len(out)
        if m is not None:
            r = m(n, out)
        else:
            # expression statement
            e = self.ex(n)
            out.append(self.ind() + e + ';')
            self.after_stmt(out)
            r = None
        if n.get('_line') is not None and mark < len(out) and '/*@L' not in out[mark]:
            out[mark] += ' /*@L%s*/' % n['_line']
        return r

    def after_stmt(self, out):
        """exception propagation point after a full expression"""
        if self._stmt_may_throw:
            self._stmt_may_throw = False
            out.append(self.ind() + self.unwind_text())
    _stmt_may_throw = False

    def note_throw(self):
        self._stmt_may_throw = True
        self.may_throw = True

    def unwind_text(self):
        if self.catch_labels:
            return 'if (__exc) goto %s;' % self.catch_labels[-1]
        return 'if (__exc) { %s }' % self.return_default()

    def return_default(self):
        if self.ret_c == 'void': return 'return;'
        return '{ %s __dflt; return __dflt; }' % self.ret_c if False else 'return %s;' % self.default_ret_value()

    def default_ret_value(self):
        t = self.ret_t
        if t.is_ref(): return '((%s)0)' % self.tr.ctype_t(t)
        cat = self.tr.category(t)
        if cat in ('scalar', 'enum'): return '0'
        if cat in ('ptr', 'sp', 'iter'): return '((%s)0)' % self.tr.ctype_t(t)
        return '((%s){0})' % self.tr.ctype_t(t)

    def block(self, n, out):
        """print statement n as a braced block"""
        out.append(self.ind() + '{')
        self.indent += 1
        if n.get('kind') == 'CompoundStmt':
            stopped = False
            for c in n.get('inner', []):
                if stopped:
                    self.loop_no += self.skip_counts(c); continue
                self.stmt(c, out)
                if getattr(self, 'stop_block', False):
                    # branch-cut ... stop: the paths that pass this point are verified in another slice
                    self.stop_block = False; stopped = True
                    out.append(self.ind() + '__CPROVER_assume(0); /* the rest of this block is verified in another slice */')
        else:
            self.stmt(n, out)
        self.indent -= 1
        out.append(self.ind() + '}')

    def st_CompoundStmt(self, n, out): self.block(n, out)
    def st_NullStmt(self, n, out): out.append(self.ind() + ';')
    def spec_asserts(self, kind, out):
        k = self.stmt_counts.get(kind, 0) + 1; self.stmt_counts[kind] = k
        if self.tr.hooks and hasattr(self.tr.hooks, 'stmt_asserts'):
            for l in self.tr.hooks.stmt_asserts(self.cname, kind, k): out.append(self.ind() + l)
    def st_BreakStmt(self, n, out):
        self.spec_asserts('break', out); out.append(self.ind() + 'break;')
    def st_ContinueStmt(self, n, out):
        self.spec_asserts('continue', out); out.append(self.ind() + 'continue;')

    def st_DeclStmt(self, n, out):
        for d in n.get('inner', []):
            if d.get('kind') == 'VarDecl':
                self.var_decl(d, out)
            elif d.get('kind') in ('TypeAliasDecl', 'TypedefDecl', 'UsingDirectiveDecl', 'StaticAssertDecl', 'UsingDecl'):
                if d.get('kind') in ('TypeAliasDecl', 'TypedefDecl'):
                    t = d.get('type', {})
                    self.tr.aliases[d['name']] = t.get('desugaredQualType') or t.get('qualType')
            elif d.get('kind') in ('CXXRecordDecl',):
                pass  # local class: indexed separately
            else:
                self.fail(d, 'declaration kind in DeclStmt')

    def var_decl(self, d, out):
        mark = len(out)
        self.var_decl_(d, out)
        nm = self.local_names.get(d['id'])
        if nm and len(out) > mark and d.get('storageClass') != 'static':
            out[-1] += ' /*@dirty %s*/' % nm

    def var_decl_(self, d, out):
        t = self.tr.tparse(d['type'])
        if d.get('storageClass') == 'static':
            g = self.tr.use_global(d, prefix=self.cname + '__')
            self.local_names[d['id']] = g
            return
        name = self.lname(d['id'], d.get('name'))
        init = [c for c in d.get('inner', []) if c]
        init = init[-1] if init else None
        if t.is_ref():
            if init is None: self.fail(d, 'reference without initialiser')
            out.append(self.ind() + '%s = %s;' % (self.tr.decl_text_t(t, name), self.addr(init)))
            self.after_stmt(out)
            return
        decl = self.tr.decl_text_t(t, name)
        if init is None:
            cat = self.tr.category(t)
            if cat in ('str', 'sv', 'vec', 'opt', 'sstream', 'umap'):
                out.append(self.ind() + '%s = {0};' % decl)
                if cat in ('vec', 'str', 'sstream'):
                    out.append(self.ind() + self.tr.lib.default_init_stmt(self, t, cat, name))
            elif cat == 'record':
                out.append(self.ind() + decl + ';')
                ctor = self.tr.default_ctor_call(self, t, '&' + name)
                if ctor: out.append(self.ind() + ctor + ';')
            else:
                out.append(self.ind() + decl + ';')
            return
        s = self.skip(init)
        if s.get('kind') in ('CXXConstructExpr', 'CXXTemporaryObjectExpr') and self.tr.category(t) == 'record':
            handled = self.tr.construct_into(self, s, name, decl, out)
            if handled:
                self.after_stmt(out)
                return
        if s.get('kind') == 'InitListExpr' and t.kind == 'array':
            vals = ', '.join(self.ex(c) for c in s.get('inner', []) if c)
            out.append(self.ind() + '%s = {%s};' % (decl, vals)); return
        e = self.ex(init)
        out.append(self.ind() + '%s = %s;' % (decl, e))
        self.after_stmt(out)

    def st_ReturnStmt(self, n, out):
        inner = [c for c in n.get('inner', []) if c]
        self.spec_asserts('return', out)
        self.canary(out)
        if not inner:
            out.append(self.ind() + 'return;'); return
        e = inner[0]
        if self.ret_t is not None and self.ret_t.is_ref():
            v = self.addr(e)
        else:
            v = self.ex(e)
        if self._stmt_may_throw:
            tmp = self.new_temp(lambda nm: '%s %s' % (self.ret_c, nm))
            out.append(self.ind() + '%s = %s;' % (tmp, v))
            self.after_stmt(out)
            out.append(self.ind() + 'return %s;' % tmp)
        else:
            out.append(self.ind() + 'return %s;' % v)

    def canary(self, out):
        if self.cname in self.tr.canary_fns:
            out.append(self.ind() + '__CPROVER_assert(0, "canary.%s.%d");' % (self.cname, self.canary_no))
            self.canary_no += 1

    def cond(self, n):
        e = self.ex(n)
        return e

    def st_IfStmt(self, n, out):
        inner = [c for c in n.get('inner', [])]
        i = 0
        opened = False
        if n.get('hasInit'):
            out.append(self.ind() + '{'); self.indent += 1; opened = True
            self.stmt(inner[i], out); i += 1
        if n.get('hasVar'):
            if not opened:
                out.append(self.ind() + '{'); self.indent += 1; opened = True
            self.stmt(inner[i], out); i += 1
        c = inner[i]; th = inner[i + 1]; el = inner[i + 2] if n.get('hasElse') else None
        ce = self.cond(c)
        if self._stmt_may_throw:
            tmp = self.new_temp(lambda nm: '_Bool %s' % nm)
            out.append(self.ind() + '%s = %s;' % (tmp, ce)); self.after_stmt(out); ce = tmp
        cut = None
        for bc in getattr(self.tr, 'branch_cuts', {}).get(self.cname, []):
            if bc['text'] in ce:
                bc['hits'] += 1; cut = bc['side']
        out.append(self.ind() + 'if (%s)' % ce)
        if cut == 'then':
            out.append(self.ind() + '  { __CPROVER_assume(0); /* branch verified in another slice */ }')
            self.loop_no += self.skip_counts(th)
        else:
            self.block(th, out)
        if cut == 'else':
            out.append(self.ind() + 'else')
            out.append(self.ind() + '  { __CPROVER_assume(0); /* branch verified in another slice */ }')
            if el is not None: self.loop_no += self.skip_counts(el)
        elif el is not None:
            out.append(self.ind() + 'else')
            self.block(el, out)
        if cut == 'stop': self.stop_block = True
        if opened:
            self.indent -= 1; out.append(self.ind() + '}')

    def loop_contract(self):
        self.loop_no += 1
        self.current_loop = self.loop_no
        lc = self.tr.hooks.loop_contract(self.cname, self.loop_no) if self.tr.hooks else []
        if not lc: self.uncontracted_loops += 1
        return ['/*@loop %d*/' % self.loop_no] + lc

    def st_WhileStmt(self, n, out):
        inner = [c for c in n.get('inner', []) if c]
        c, body = inner[-2], inner[-1]
        lc = self.loop_contract()
        ce = self.cond(c)
        if self._stmt_may_throw: self.fail(n, 'throwing call in loop condition')
        out.append(self.ind() + 'while (%s)' % ce)
        for l in lc: out.append(self.ind() + '  ' + l)
        self.loop_body(body, out)

    def st_DoStmt(self, n, out):
        body, c = n['inner'][0], n['inner'][1]
        lc = self.loop_contract()
        out.append(self.ind() + 'do')
        for l in lc: out.append(self.ind() + '  ' + l)     # cbmc wants do-while contracts between 'do' and the body
        self.loop_body(body, out)
        out.append(self.ind() + 'while (%s);' % self.cond(c))

    def st_ForStmt(self, n, out):
        init, condvar, c, inc, body = (n['inner'] + [{}] * 5)[:5]
        out.append(self.ind() + '{'); self.indent += 1
        if init: self.stmt(init, out)
        lc = self.loop_contract()
        ce = self.cond(c) if c else '1'
        ie = self.ex(inc) if inc else ''
        if self._stmt_may_throw: self.fail(n, 'throwing call in for header')
        out.append(self.ind() + 'for (; %s; %s)' % (ce, ie))
        for l in lc: out.append(self.ind() + '  ' + l)
        self.loop_body(body, out)
        self.indent -= 1; out.append(self.ind() + '}')

    def st_CXXForRangeStmt(self, n, out):
        # inner: [init?, range decl, begin decl, end decl, cond, inc, loopvar decl, body]
        inner = n['inner']
        init, rng, beg, end, c, inc, var, body = inner
        out.append(self.ind() + '{'); self.indent += 1
        if init: self.stmt(init, out)
        self.stmt(rng, out); self.stmt(beg, out); self.stmt(end, out)
        lc = self.loop_contract()
        out.append(self.ind() + 'for (; %s; %s)' % (self.cond(c), self.ex(inc)))
        for l in lc: out.append(self.ind() + '  ' + l)
        out.append(self.ind() + '{'); self.indent += 1
        self.stmt(var, out)
        if body.get('kind') == 'CompoundStmt':
            for s in body.get('inner', []): self.stmt(s, out)
        else:
            self.stmt(body, out)
        self.indent -= 1; out.append(self.ind() + '}')
        self.indent -= 1; out.append(self.ind() + '}')

    def st_SwitchStmt(self, n, out):
        inner = [c for c in n.get('inner', []) if c]
        c, body = inner[-2], inner[-1]
        self.switch_no = getattr(self, 'switch_no', 0) + 1
        sl = self.tr.switch_slice.get((self.cname, self.switch_no))
        out.append(self.ind() + 'switch (%s)' % self.ex(c))
        if sl is None or body.get('kind') != 'CompoundStmt':
            self.block(body, out); return
        # switch slicing (DESIGN 1.2 rule 2): only the arm groups of this slice keep their bodies, every other arm is
        # cut with assume(0).  Each arm group is in exactly one slice, so the slices together cover every path.
        idx, nslices = sl
        out.append(self.ind() + '{'); self.indent += 1
        group = -1; keep = True
        count_loops = self.skip_counts
        def first_label(s):
            if s.get('kind') == 'DefaultStmt': return 'default'
            xi = [k for k in s.get('inner', []) if k]
            try: return self.ex(xi[0])
            except Exception: return '?'
        for s in body.get('inner', []):
            if s.get('kind') in ('CaseStmt', 'DefaultStmt'):
                group += 1
                if idx == 'only': keep = nslices in first_label(s)
                elif idx == 'except': keep = nslices not in first_label(s)
                else: keep = (group % nslices) == idx
                if keep:
                    self.stmt(s, out)
                else:
                    # print only the labels of the chain
                    x = s
                    while x is not None and x.get('kind') in ('CaseStmt', 'DefaultStmt'):
                        xi = [k for k in x.get('inner', []) if k]
                        if x['kind'] == 'CaseStmt':
                            out.append(self.ind() + 'case %s:' % self.ex(xi[0])); nxt = xi[-1] if len(xi) > 1 else None
                        else:
                            out.append(self.ind() + 'default:'); nxt = xi[0] if xi else None
                        x = nxt
                    out.append(self.ind() + '  __CPROVER_assume(0); /* arm verified in another slice */')
                    self.loop_no += count_loops(s)
            elif keep:
                self.stmt(s, out)
            else:
                self.loop_no += count_loops(s)
        self.tr.switch_groups[(self.cname, self.switch_no)] = group + 1
        self.indent -= 1; out.append(self.ind() + '}')

    def skip_counts(self, x):
        # loops / break / continue / return statements of a cut arm or branch still take their number, so that `loop K` and
        # `assert break K` name the same source statement in every slice; returns the number of loops (and advances nothing else)
        if not isinstance(x, dict) or x.get('kind') == 'LambdaExpr': return 0
        kd = {'BreakStmt': 'break', 'ContinueStmt': 'continue', 'ReturnStmt': 'return'}.get(x.get('kind'))
        if kd: self.stmt_counts[kd] = self.stmt_counts.get(kd, 0) + 1
        return (1 if x.get('kind') in ('WhileStmt', 'ForStmt', 'DoStmt', 'CXXForRangeStmt') else 0) + sum(self.skip_counts(k) for k in x.get('inner', []) if k)

    def st_CaseStmt(self, n, out):
        inner = [c for c in n.get('inner', []) if c]
        v = inner[0]; sub = inner[-1] if len(inner) > 1 else None
        out.append(self.ind() + 'case %s:' % self.ex(v))
        if sub is not None:
            self.indent += 1; self.stmt(sub, out); self.indent -= 1
        else:
            out.append(self.ind() + ';')

    def st_DefaultStmt(self, n, out):
        out.append(self.ind() + 'default:')
        inner = [c for c in n.get('inner', []) if c]
        if inner:
            self.indent += 1; self.stmt(inner[0], out); self.indent -= 1
        else:
            out.append(self.ind() + ';')

    def st_LabelStmt(self, n, out):
        out.append(self.ind() + '%s:' % n['name'])
        self.stmt(n['inner'][0], out)
    def st_GotoStmt(self, n, out):
        lab = self.tr.labels.get(n.get('targetLabelDeclId')) or n.get('name')
        if not lab: self.fail(n, 'goto target')
        out.append(self.ind() + 'goto %s;' % lab)

    def st_CXXTryStmt(self, n, out):
        return self.tr.try_stmt(self, n, out)

    # ------------------------------------------------------------- whole function
    def print_function(self):
        node = self.node; tr = self.tr
        self.ret_t = tr.fn_ret_type(node) if node['kind'] not in ('CXXConstructorDecl', 'CXXDestructorDecl') else T('named', name='void')
        self.ret_c = 'void' if node['kind'] in ('CXXConstructorDecl', 'CXXDestructorDecl') else tr.ctype_t(self.ret_t)
        for p in tr.fn_params(node):
            self.lname(p['id'], p.get('name') or '__unnamed')
        sig = tr.fn_signature(node, self.cname)
        body = [c for c in node.get('inner', []) if c.get('kind') == 'CompoundStmt']
        if not body: self.fail(node, 'no body')
        out = []
        if self.is_ctor:
            tr.ctor_prologue(self, node, out)
        for c in body[0].get('inner', []):
            self.stmt(c, out)
        if self.ret_c == 'void' or True:
            # canary at the fall-through end (only meaningful for void functions)
            if self.ret_c == 'void': self.canary(out)
        if node.get('_lambda_env'):
            out.insert(0, '  struct %s *__c = (struct %s *)__env;' % (node['_lambda_env'][0], node['_lambda_env'][0]))
        head = [sig]
        if tr.hooks:
            head += ['  ' + l for l in tr.hooks.fn_contract(self.cname)]
        lines = head + ['{']
        for tdecl in self.temps:
            lines.append('  %s;' % tdecl)
        for k, names in self.temp_loops.items():
            # append the temporaries created inside loop k to its assigns clause (first one after the loop marker)
            for i, l in enumerate(out):
                if '/*@loop %d*/' % k in l:
                    for j in range(i + 1, min(i + 4, len(out))):
                        if out[j].lstrip().startswith('__CPROVER_assigns('):
                            inner = out[j].rstrip()
                            out[j] = inner[:-1] + (', ' if not inner.endswith('(') else '') + ', '.join(names) + ')'
                            break
                    break
        if self.uncontracted_loops:
            # dfcc (cbmc 6.11) checks assignments to locals inside loops that have no contract against the write set
            # but only records locals whose address is taken; taking the address is semantically neutral.
            out = [re.sub(r"/\*@dirty (\w+)\*/", r"(void)&\1;", l) for l in out]
            for p in tr.fn_params(node):
                if p.get('name'): lines.append('  (void)&%s;' % self.local_names.get(p['id'], p['name']))
        lines += out + ['}']
        return '\n'.join(lines)
