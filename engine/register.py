#!/usr/bin/env python3
"""developer tool: add (or update) a claimed property in MANIFEST.json from the template of the existing entries
usage: register.py <ID> <scope text>"""
import json, sys, os
ROOT = os.path.dirname(os.path.dirname(os.path.abspath(__file__)))
def main():
    pid, scope = sys.argv[1], sys.argv[2]
    p = os.path.join(ROOT, 'MANIFEST.json'); m = json.load(open(p))
    tmpl = json.loads(json.dumps(m['checks'][0])); old = tmpl['property_id']
    c = None
    for x in m['checks']:
        if x['property_id'] == pid: c = x
    if c is None:
        c = json.loads(json.dumps(tmpl)); m['checks'].append(c)
        for k in ('quick_cmd', 'thorough_cmd', 'evidence_file', 'replay_cmd_template'): c[k] = c[k].replace(old, pid)
        c['property_id'] = pid
        c['level_claimed']['design_ref'] = 'DESIGN.md section 5 / %s' % pid
    base = tmpl['level_note'].split('scope: ')[0]
    c['level_note'] = base + 'scope: ' + scope
    m['not_applicable'] = [x for x in m['not_applicable'] if x['property_id'] != pid]
    json.dump(m, open(p, 'w'), indent=1)
main()
