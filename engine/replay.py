"""Replay files, witness search and native replay against the real code built from /repo's current tree."""
import os, sys, json, hashlib, subprocess, time, shutil, tempfile, re

ROOT = os.path.dirname(os.path.dirname(os.path.abspath(__file__)))
SCRATCH = '/var/tmp/sqfvm-verif-replay'

# unit name -> native driver description
DRIVERS = {
    'sqf_tokenizer': {'src': 'replay/drivers/sqf_tokenizer.cpp', 'flags': [], 'search_arg': '4'},
    'config_tokenizer': {'src': 'replay/drivers/sqf_tokenizer.cpp', 'flags': ['-DCONFIG_TOK'], 'search_arg': '4'},
    'pbofile': {'src': 'replay/drivers/pbofile.cpp', 'flags': [], 'search_arg': '0'},
    'pp_reader': {'src': 'replay/drivers/pp_reader.cpp', 'flags': [], 'search_arg': '7'},
    'value_convert': {'src': 'replay/drivers/value_convert.cpp', 'flags': ['-fsanitize=float-cast-overflow', '-fno-sanitize-recover=all'], 'search_arg': '0'},
    'fileio_bom': {'src': 'replay/drivers/fileio_bom.cpp', 'flags': [], 'search_arg': '0'},
    'call_binary': {'vm': 'call_binary'},
    'sqf_yylex': {'vm': 'sqf_yylex'},
    'array_ops': {'vm': 'array_ops'},
    'while_loop': {'vm': 'while_loop'},
    'iteration': {'vm': 'iteration'},
    'for_loop': {'vm': 'iteration'},
    'switch_ops': {'vm': 'iteration'},
    'if_then': {'vm': 'iteration'},
    'lazy_logic': {'vm': 'iteration'},
    'try_catch': {'vm': 'iteration'},
    'config_ops': {'vm': 'config_ops'},
    'waituntil': {'vm': 'waituntil'},
    'operators_total': {'vm': 'operators_total'},
    'operators_select': {'vm': 'operators_total'},
    'operators_format': {'vm': 'operators_total'},
    'operators_sort': {'vm': 'operators_total'},
    'operators_random': {'vm': 'operators_total'},
    'group_vars': {'vm': 'operators_total'},
    'object_move': {'vm': 'operators_total'},
    'd_array_check': {'vm': 'operators_total'},
    'runtime_core': {'vm': 'runtime_core'},
    'runtime_execute': {'vm': 'runtime_step'},
    'runtime_sched': {'vm': 'waituntil'},
    'frame': {'vm': 'runtime_step'},
}

_vm_build = None
def build_sqfvm():
    """builds sqfvm from /repo's current tree in a scratch directory (removed at exit); returns the binary or None"""
    global _vm_build
    if _vm_build is not None: return _vm_build
    import atexit
    d = os.path.join('/var/tmp', 'sqfvm-verif-build-%d' % os.getpid())
    shutil.rmtree(d, ignore_errors=True)
    atexit.register(lambda: shutil.rmtree(d, ignore_errors=True))
    p = subprocess.run('cmake -G Ninja -S /repo -B %s -DCMAKE_BUILD_TYPE=RelWithDebInfo >/dev/null 2>&1 && cmake --build %s --target sqfvm -j16 2>&1 | tail -3' % (d, d),
                       shell=True, capture_output=True, timeout=1500)
    exe = os.path.join(d, 'sqfvm')
    _vm_build = exe if os.path.exists(exe) else ''
    return _vm_build

def build_driver(unit):
    d = DRIVERS.get(unit)
    if d is None: return None, 'no native driver for unit %s' % unit
    os.makedirs(SCRATCH, exist_ok=True)
    exe = os.path.join(SCRATCH, 'drv_%s_%d' % (unit, os.getpid()))
    cmd = ['g++', '-std=c++17', '-O1', '-g', '-fsanitize=address,undefined', '-fno-omit-frame-pointer', '-I/repo/src',
           os.path.join(ROOT, d['src']), '-o', exe] + d['flags'] + d.get('libs', [])
    p = subprocess.run(cmd, capture_output=True)
    if p.returncode != 0:
        return None, 'driver build failed: ' + p.stderr.decode()[-800:]
    return exe, ''

def trim_trace(tr, limit=120):
    out = []
    for s in tr:
        if s.get('hidden'): continue
        loc = s.get('sourceLocation', {})
        fn = loc.get('function', '')
        if fn.startswith('__CPROVER_contracts'): continue
        if s.get('stepType') == 'assignment':
            v = s.get('value', {})
            out.append({'fn': fn, 'line': loc.get('line'), 'lhs': s.get('lhs'), 'value': v.get('data', v.get('name'))})
        elif s.get('stepType') == 'failure':
            out.append({'fn': fn, 'line': loc.get('line'), 'failure': s.get('reason')})
    return out[-limit:]

def make_replay(pid, r, o, tier):
    """writes the replay file for one failed obligation; returns (path, reproduced_on_real_code)"""
    os.makedirs(os.path.join(ROOT, 'replays'), exist_ok=True)
    h = hashlib.sha1(('%s|%s|%s' % (pid, r.name if r else 'static', o['name'])).encode()).hexdigest()[:10]
    path = os.path.join(ROOT, 'replays', '%s_%s.json' % (pid, h))
    rec = {'property': pid, 'query': r.name if r else 'static', 'unit': r.unit if r else None, 'target': r.target if r else None,
           'failed_obligation': o['name'], 'cbmc_property': o.get('property'), 'description': o.get('description'),
           'cxx_line': o.get('cxx_line'), 'checker_cmd': r.cmd if r else None,
           'verifier_output': trim_trace(o.get('trace', [])), 'generated_c': r.c_file if r else None,
           'note': 'obligation that is discharged on the unchanged tree and fails on this tree'}
    if o.get('static'): rec['static_fact'] = o['static']
    reproduced = False
    if r is not None and r.unit in DRIVERS and 'vm' in DRIVERS[r.unit]:
        import importlib
        sys.path.insert(0, os.path.join(ROOT, 'replay', 'vm'))
        exe = build_sqfvm()
        if not exe:
            rec['native'] = 'sqfvm could not be built from the current tree'
        else:
            mod = importlib.import_module(DRIVERS[r.unit]['vm'])
            found, detail, inp = mod.search(exe)
            rec['native'] = {'driver': 'replay/vm/%s.py' % DRIVERS[r.unit]['vm'], 'mode': 'VM-level witness search on sqfvm built from the current tree', 'detail': detail}
            if found:
                reproduced = True; rec['failing_input'] = inp; rec['replay_cmd'] = './check %s --replay %s' % (pid, path)
    elif r is not None and r.unit in DRIVERS:
        exe, why = build_driver(r.unit)
        if exe is None:
            rec['native'] = why
        else:
            inp = path[:-5] + '.input.bin'
            t0 = time.time()
            p = subprocess.run([exe, '--search', inp, DRIVERS[r.unit]['search_arg']], capture_output=True, timeout=600)
            rec['native'] = {'driver': DRIVERS[r.unit]['src'], 'mode': 'witness search over short inputs on the real code (ASan+UBSan, watchdog)',
                             'exit': p.returncode, 'seconds': round(time.time() - t0, 1), 'stderr_head': p.stderr.decode('utf-8', 'replace')[:1500]}
            if p.returncode != 0 and os.path.exists(inp):
                reproduced = True
                rec['failing_input_file'] = inp
                rec['failing_input_hex'] = open(inp, 'rb').read().hex()
                rec['replay_cmd'] = './check %s --replay %s' % (pid, path)
            os.unlink(exe)
    elif r is not None:
        rec['native'] = 'no native driver registered for unit %s: no failing input searched' % r.unit
    rec['reproduced_on_real_code'] = reproduced
    json.dump(rec, open(path, 'w'), indent=1)
    return path, reproduced

def replay_file(path):
    rec = json.load(open(path))
    print('replay of %s: obligation %s (query %s)' % (rec['property'], rec['failed_obligation'], rec['query']))
    if rec.get('failing_input_file') and rec.get('unit') in DRIVERS:
        exe, why = build_driver(rec['unit'])
        if exe is None:
            print(why); return 2
        inp = rec['failing_input_file']
        if not os.path.exists(inp):
            open(inp, 'wb').write(bytes.fromhex(rec['failing_input_hex']))
        p = subprocess.run([exe, '--input', inp], capture_output=True, timeout=120)
        os.unlink(exe)
        print(p.stderr.decode('utf-8', 'replace')[:2000])
        print('driver exit code %d (0 = the real code handles this input)' % p.returncode)
        return 1 if p.returncode != 0 else 0
    if rec.get('unit') in DRIVERS and 'vm' in DRIVERS[rec['unit']]:
        import importlib
        sys.path.insert(0, os.path.join(ROOT, 'replay', 'vm'))
        exe = build_sqfvm()
        if not exe:
            print('sqfvm could not be built'); return 2
        found, detail, inp = importlib.import_module(DRIVERS[rec['unit']]['vm']).search(exe)
        print(detail); print('reproduced on the real code' if found else 'not reproduced on this tree')
        return 1 if found else 0
    print('no failing input recorded; verifier output:')
    for s in rec.get('verifier_output', [])[-30:]: print('  ', s)
    return 1

def run_known_replay(k):
    """native demonstration of a listed known finding; returns (reproduced, detail)"""
    rp = k['replay']
    kind = rp.get('kind')
    try:
        if kind == 'driver':
            exe, why = build_driver(rp['unit'])
            if exe is None: return False, why
            with tempfile.NamedTemporaryFile(delete=False, dir=SCRATCH) as f:
                f.write(bytes.fromhex(rp['input_hex'])); inp = f.name
            p = subprocess.run([exe, '--input', inp], capture_output=True, timeout=120)
            os.unlink(exe); os.unlink(inp)
            return p.returncode != 0, 'driver exit %d' % p.returncode
        if kind == 'api':
            import statics
            d, log = statics.scratch_build('libsqfvm')
            if d is None: return False, 'libsqfvm could not be built: ' + log[-200:]
            p = subprocess.run([sys.executable, os.path.join(ROOT, 'replay', 'api', 'isolation.py'), os.path.join(d, 'libsqfvm.so'), rp['probe'], rp['other']],
                               capture_output=True, timeout=120)
            return p.returncode == 1, p.stdout.decode('utf-8', 'replace')[-300:].replace('\n', ' | ')
        if kind == 'api_seq':
            # several calls on ONE instance; reproduced when call number rp['index'] returns rp['bad_rc']
            import statics
            d, log = statics.scratch_build('libsqfvm')
            if d is None: return False, 'libsqfvm could not be built: ' + log[-200:]
            p = subprocess.run([sys.executable, os.path.join(ROOT, 'replay', 'api', 'sequence.py'), os.path.join(d, 'libsqfvm.so'), str(rp.get('max_runtime', 5))] + rp['calls'],
                               capture_output=True, timeout=120)
            lines = [l for l in p.stdout.decode('utf-8', 'replace').split('\n') if '->' in l]
            if len(lines) <= rp['index']: return False, 'sequence did not complete: ' + p.stderr.decode('utf-8', 'replace')[-200:]
            m = re.search(r"-> (-?\d+) ", lines[rp['index']])
            ok = m is not None
            if ok and 'bad_rc' in rp: ok = int(m.group(1)) == rp['bad_rc']
            if ok and 'bad_log' in rp: ok = rp['bad_log'] in lines[rp['index']]
            return ok, lines[rp['index']][:300]
        if kind == 'sqf':
            # a script run by the CLI of a sqfvm built from the current tree; reproduced when rp['bad'] occurs in the output
            exe = build_sqfvm()
            if not exe: return False, 'sqfvm could not be built from the current tree'
            with tempfile.NamedTemporaryFile('w', suffix='.sqf', delete=False, dir=SCRATCH if os.path.isdir(SCRATCH) else None) as f:
                f.write(rp['code']); path = f.name
            try:
                p = subprocess.run([exe, '-a', '--no-execute-print', '--no-load-executable-dir', '--max-runtime', '5000', '--input-sqf', path], capture_output=True, timeout=60)
            finally:
                os.unlink(path)
            out = (p.stdout + p.stderr).decode('utf-8', 'replace')
            line = [l for l in out.split('\n') if 'DIAG_LOG' in l]
            return rp['bad'] in out.replace(' ', ''), (line[-1].strip() if line else out[-200:])[:200]
    except subprocess.TimeoutExpired:
        return True, 'timeout (hang)'
    return False, 'unknown replay kind'
