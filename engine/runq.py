#!/usr/bin/env python3
"""developer tool: run the queries of one spec file (optionally filtered by name glob)"""
import sys, os, fnmatch, json, concurrent.futures as cf
sys.path.insert(0, os.path.dirname(os.path.abspath(__file__)))
import spec, runner
def main():
    path = sys.argv[1]; pat = sys.argv[2] if len(sys.argv) > 2 else '*'
    tier = os.environ.get('VERIF_TIER', 'quick')
    units = spec.parse_file(path)
    work = '/verif/.work/dev'
    jobs = []
    for us in units:
        b = runner.UnitBuilder(us, os.path.join(work, us.name), '/verif/.work/astcache')
        for (q, v) in b.expand_queries():
            name = runner.subst(q.name, v)
            if fnmatch.fnmatchcase(name, pat): jobs.append((b, q, v))
    with cf.ThreadPoolExecutor(max_workers=int(os.environ.get('JOBS', '12'))) as ex:
        futs = [ex.submit(runner.run_query, b, q, v, tier, os.path.join(work, b.uspec.name)) for (b, q, v) in jobs]
        for f in futs:
            r = f.result()
            print('%-60s %-9s %4d obl %3d failed  %.1fs  %s' % (r.name, r.status, len(r.obligations), len(r.failed), r.seconds, r.reason[:3000]))
            for o in r.failed[:12]:
                print('     FAILED', o['name'], '|', o['description'][:110])
                if '-t' in sys.argv:
                    import replay
                    for st in replay.trim_trace(o.get('trace', []), 60): print('        ', st)
            if '-c' in sys.argv: print('     canaries', r.canaries)
main()
