"""cxx2c -- mechanical printer of clang's typed C++ AST (JSON) as C for CBMC.

Type directed, table driven, no per-function rules.  Anything outside the supported subset raises
Unsupported (the caller turns that into exit code 2: undecided, never a violation).

What is dropped/abstracted is listed in DESIGN.md section 2.2 and copied into every evidence file.
"""
import json, os, re, subprocess, hashlib, sys
from cxxtypes import parse as parse_type, T, TypeErrorX

class Unsupported(Exception):
    pass

NS_SHORT = [
    ('sqf::parser::sqf::', 'ps_'), ('sqf::parser::config::', 'pc_'), ('sqf::parser::preprocessor::', 'pp_'),
    ('sqf::parser::assembly::', 'pa_'), ('sqf::runtime::parser::', 'rp_'), ('sqf::runtime::diagnostics::', 'rd_'),
    ('sqf::runtime::util::', 'ru_'), ('sqf::runtime::', 'rt_'), ('sqf::types::', 'ty_'), ('sqf::opcodes::', 'oc_'),
    ('sqf::operators::', 'op_'), ('sqf::fileio::', 'fio_'), ('sqf::', 'sqf_'), ('rvutils::pbo::', 'pbo_'),
    ('rvutils::', 'rv_'), ('anon::', 'anon_'), ('dllexports::', 'dll_'),
]

def docs_of(text):
    dec = json.JSONDecoder(); i = 0; n = len(text)
    while i < n:
        while i < n and text[i].isspace(): i += 1
        if i >= n: break
        obj, j = dec.raw_decode(text, i); yield obj; i = j

def sanitize(s):
    s = re.sub(r"\(char\)", '', s)
    s = re.sub(r"\(unsigned long\)", '', s)
    s = re.sub(r"\([a-z ]+\)", '', s)
    s = s.replace('::', '__')
    s = re.sub(r"[^A-Za-z0-9_]+", '_', s)
    return s.strip('_')

def short_ns(q):
    for (a, b) in NS_SHORT:
        if q.startswith(a):
            return b + q[len(a):]
    return q

CLANG_ARGS = ['clang++', '-std=c++17', '-fsyntax-only', '-w', '-I/repo/src', '-I/repo/include/tclap-1.2.2/include',
              '-DSQFVM_BUILD']

def clang_dump(tu_path, filt, cache_dir, extra=()):
    """returns path of the JSON dump for (tu, filter); cached by hash of preprocessed text + filter."""
    os.makedirs(cache_dir, exist_ok=True)
    pp = subprocess.run(CLANG_ARGS[:1] + ['-E', '-P'] + CLANG_ARGS[1:2] + CLANG_ARGS[3:] + list(extra) + [tu_path],
                        capture_output=True)
    if pp.returncode != 0:
        raise Unsupported("clang -E failed for %s: %s" % (tu_path, pp.stderr.decode()[:2000]))
    h = hashlib.sha256(pp.stdout + b'\0' + filt.encode() + b'\0' + ' '.join(extra).encode()).hexdigest()[:24]
    out = os.path.join(cache_dir, h + '.json')
    if os.path.exists(out) and os.path.getsize(out) > 0:
        return out
    # ASLR off: node ids (pointer values) are then identical across clang runs over the same TU, so dumps made with
    # different filters can be joined by id
    cmd = ['setarch', 'x86_64', '-R'] + CLANG_ARGS + list(extra) + ['-Xclang', '-ast-dump=json', '-Xclang', '-ast-dump-filter=' + filt, tu_path]
    with open(out + '.tmp', 'wb') as f:
        r = subprocess.run(cmd, stdout=f, stderr=subprocess.PIPE)
    if r.returncode != 0:
        raise Unsupported("clang failed for %s: %s" % (tu_path, r.stderr.decode()[:2000]))
    os.rename(out + '.tmp', out)
    return out

# ---------------------------------------------------------------------------------------------
# Type mapping table (the one fixed table of DESIGN.md section 3)
# ---------------------------------------------------------------------------------------------
BUILTIN_C = {
    'bool': '_Bool', 'char': 'char', 'signed char': 'signed char', 'unsigned char': 'unsigned char',
    'short': 'short', 'unsigned short': 'unsigned short', 'int': 'int', 'unsigned int': 'unsigned int',
    'unsigned': 'unsigned int', 'long': 'long', 'unsigned long': 'unsigned long', 'long long': 'long long',
    'unsigned long long': 'unsigned long long', 'float': 'float', 'double': 'double', 'void': 'void',
    'size_t': 'unsigned long', 'std::size_t': 'unsigned long', 'long double': 'long double',
    'uint8_t': 'unsigned char', 'int8_t': 'signed char', 'uint16_t': 'unsigned short', 'int16_t': 'short',
    'uint32_t': 'unsigned int', 'int32_t': 'int', 'uint64_t': 'unsigned long', 'int64_t': 'long',
    'std::uint8_t': 'unsigned char', 'std::uint32_t': 'unsigned int', 'std::int32_t': 'int',
    'std::uint64_t': 'unsigned long', 'std::int64_t': 'long', 'ptrdiff_t': 'long', 'std::ptrdiff_t': 'long',
    'std::streamsize': 'long', 'std::streamoff': 'long', 'std::nullptr_t': 'void *', 'nullptr_t': 'void *',
    'std::ios_base::openmode': 'int', 'std::_Ios_Openmode': 'int', 'std::ios_base::seekdir': 'int',
    'std::_Ios_Seekdir': 'int', 'std::byte': 'unsigned char', 'std::fpos': 'long', 'std::streampos': 'long',
    'fpos': 'long', 'std::ios_base::iostate': 'int', 'std::_Ios_Iostate': 'int',
}

STRING_NAMES = {'std::basic_string', 'std::__cxx11::basic_string', 'std::string', 'basic_string'}
SV_NAMES = {'std::basic_string_view', 'std::string_view', 'basic_string_view'}
VEC_NAMES = {'std::vector', 'vector'}
OPT_NAMES = {'std::optional', 'optional'}
SP_NAMES = {'std::shared_ptr', 'std::weak_ptr', 'std::unique_ptr', 'shared_ptr', 'weak_ptr', 'unique_ptr',
            'std::__shared_ptr', 'std::__weak_ptr', 'std::reference_wrapper', 'std::__shared_ptr_access'}
IL_NAMES = {'std::initializer_list', 'initializer_list'}
ITER_NAMES = {'__gnu_cxx::__normal_iterator', '__normal_iterator'}
REVITER_NAMES = {'std::reverse_iterator', 'reverse_iterator'}
ARRAY_NAMES = {'std::array', 'array'}
FSTREAM_NAMES = {'std::basic_fstream', 'std::fstream', 'std::basic_ifstream', 'std::ifstream', 'basic_fstream',
                 'basic_ifstream', 'std::basic_istream', 'std::istream', 'std::basic_ios', 'std::ios', 'std::basic_iostream',
                 'std::ios_base', 'std::basic_ostream', 'std::ostream', 'basic_istream', 'basic_ios', 'basic_ostream'}
UMAP_NAMES = {'std::unordered_map', 'unordered_map'}
UMAPITER_NAMES = {'std::__detail::_Node_iterator', 'std::__detail::_Node_const_iterator', 'std::__detail::_Node_iterator_base'}
SSTREAM_NAMES = {'std::basic_stringstream', 'std::stringstream', 'std::__cxx11::basic_stringstream',
                 'std::basic_ostringstream', 'std::__cxx11::basic_ostringstream', 'std::ostringstream'}

CHRONO_ALIASES = {'std::chrono::system_clock::time_point': 1000000000, 'std::chrono::steady_clock::time_point': 1000000000,
                  'std::chrono::nanoseconds': 1000000000, 'std::chrono::microseconds': 1000000, 'std::chrono::milliseconds': 1000,
                  'std::chrono::seconds': 1, 'std::chrono::system_clock::duration': 1000000000}

class Translator:
    def __init__(self, cache_dir, opts=None):
        self.cache_dir = cache_dir
        self.opts = opts or {}
        self.decl = {}            # id -> node
        self.parent = {}          # id -> parent node
        self.qname_of = {}        # id -> qualified name (records, enums, functions)
        self.records = {}         # qname -> node (complete definition)
        self.enums = {}           # qname -> node
        self.aliases = {}         # alias qualified name -> type string
        self.fn_by_cname = {}
        self.cname_of = {}        # fn id -> cname
        self.fn_nodes = []        # FunctionDecl / CXXMethodDecl nodes with bodies
        self.globals = {}         # id -> (cname, ctype, node)
        # output state
        self.need_records = []    # ordered list of record qnames to emit
        self.need_enums = []
        self.need_inst = []       # (macro, args) instantiations in order
        self._inst_seen = set()
        self.need_fns = []        # function ids to emit (work list)
        self._fn_seen = set()
        self.string_literals = {}
        self.extern_decls = {}    # cname -> prototype text for contract-only / shim functions
        self.hooks = None         # object with fn_contract(cname), loop_contract(cname, k), stub(cname) etc.
        self.srcinfo = {}         # cname -> (file, begin line, end line)
        self.dropped = set()      # notes about what extraction dropped
        self.self_stub = set()    # cnames whose self-calls go to F__self
        self.by_contract = set()  # cnames to be emitted as prototypes only (bodiless; contract from spec)
        self.canary_fns = set()
        self.virtual_dispatch = {}
        self._tu_index = {}
        self.generated_helpers = []
        self.generated_types = []
        self.labels = {}
        self._complete_cache = {}
        self.switch_slice = {}   # (cname, switch ordinal) -> (slice index, number of slices)
        self.switch_groups = {}

    # ------------------------------------------------------------------ loading
    def load(self, tu_path, filt, extra=()):
        path = clang_dump(tu_path, filt, self.cache_dir, extra)
        text = open(path).read()
        # ids are per TU: prefix them with the TU's index so that several TUs can be loaded into one unit
        k = self._tu_index.setdefault(tu_path, len(self._tu_index))
        text = re.sub(r'"0x([0-9a-f]+)"', r'"T%d_\1"' % k, text)
        self._cur_line = None; self._cur_file = None
        for doc in docs_of(text):
            self._index(doc, None, filt)

    def _root_qname(self, node, filt):
        name = node.get('name')
        if name is None: return None
        if filt.endswith('::'):
            # broad namespace filter such as 'sqf::': clang starts dumping at the first declaration whose qualified
            # name contains the filter, i.e. at the members of that namespace
            return filt + name
        if filt.endswith('::' + name) or filt == name:
            return filt
        # the filter matched a prefix; try to find the position of name inside filter
        i = filt.find('::' + name + '::')
        if i >= 0:
            return filt[:i + 2 + len(name)]
        return None

    _cur_line = None; _cur_file = None
    def _upd_loc(self, loc):
        if not loc: return
        for sub in ('spellingLoc', 'expansionLoc'):
            if sub in loc: self._upd_loc(loc[sub])
        if 'file' in loc: self._cur_file = loc['file']
        if 'line' in loc: self._cur_line = loc['line']

    def _find_decl_ref(self, node):
        for c in node.get('inner', []):
            if isinstance(c, dict):
                d = c.get('decl')
                if d and d.get('id'): return d['id']
                r = self._find_decl_ref(c)
                if r: return r
        return None

    def _loc_line_of(self, node):
        # line of 'loc' (not of range.begin): loc is printed first, so the tracked line before range.begin is its line
        return node.get('_locline')

    def _index(self, node, parent, filt, qprefix=None):
        nid = node.get('id')
        kind = node.get('kind')
        if kind == 'LabelStmt' and node.get('declId'):
            self.labels[node['declId']] = node.get('name')
        if 'loc' in node:
            self._upd_loc(node['loc']); node['_locline'] = self._cur_line
        if 'range' in node:
            self._upd_loc(node['range'].get('begin'))
            node['_line'] = self._cur_line; node['_file'] = self._cur_file
            self._upd_loc(node['range'].get('end'))
            node['_endline'] = self._cur_line
        if nid is not None:
            if kind in ('CXXRecordDecl', 'ClassTemplateSpecializationDecl', 'EnumDecl', 'FunctionDecl', 'CXXMethodDecl',
                        'CXXConstructorDecl', 'CXXDestructorDecl', 'CXXConversionDecl', 'FieldDecl', 'VarDecl',
                        'ParmVarDecl', 'EnumConstantDecl', 'NamespaceDecl', 'TypeAliasDecl', 'TypedefDecl',
                        'FunctionTemplateDecl', 'BindingDecl', 'DecompositionDecl', 'LabelDecl'):
                # keep the richer node (a definition beats a declaration)
                old = self.decl.get(nid)
                if old is None or len(node.get('inner', [])) >= len(old.get('inner', [])):
                    self.decl[nid] = node
                if parent is not None:
                    self.parent[nid] = parent
        q = None
        if kind in ('NamespaceDecl', 'CXXRecordDecl', 'ClassTemplateSpecializationDecl', 'EnumDecl'):
            name = node.get('name')
            if not name and kind == 'CXXRecordDecl' and node.get('completeDefinition'):
                lc = node.get('loc', {})
                if 'expansionLoc' in lc: lc = lc['expansionLoc']
                name = '__unnamed_L%sC%s' % (self._loc_line_of(node), lc.get('col'))
            if parent is None and qprefix is None:
                q = self._root_qname(node, filt)
            elif name:
                q = (qprefix + '::' if qprefix else '') + name
            if q and kind != 'NamespaceDecl':
                self.qname_of[nid] = q
                if kind == 'EnumDecl':
                    if any(c.get('kind') == 'EnumConstantDecl' for c in node.get('inner', [])):
                        self.enums[q] = node
                elif node.get('completeDefinition'):
                    self.records[q] = node
        elif kind in ('TypeAliasDecl', 'TypedefDecl') and qprefix and node.get('name'):
            t = node.get('type', {})
            target = t.get('desugaredQualType') or t.get('qualType')
            did = self._find_decl_ref(node)
            if did is not None and did in self.qname_of and '__unnamed_' in self.qname_of[did]:
                target = self.qname_of[did]       # typedef of an unnamed struct: clang prints the typedef name for it
            self.aliases[qprefix + '::' + node['name']] = target
        if kind in ('FunctionDecl', 'CXXMethodDecl', 'CXXConstructorDecl', 'CXXDestructorDecl', 'CXXConversionDecl'):
            if any(c.get('kind') == 'CompoundStmt' for c in node.get('inner', [])) and \
               ('mangledName' in node) and \
               not (parent is not None and parent.get('kind') == 'FunctionTemplateDecl' and 'mangledName' not in node) and \
               not (parent is not None and parent.get('kind') == 'CXXRecordDecl' and parent.get('definitionData', {}).get('isLambda')):
                self.fn_nodes.append(node)
        for c in node.get('inner', []):
            if isinstance(c, dict) and c:
                self._index(c, node, filt, q if q else qprefix)

    # ------------------------------------------------------------------ naming
    _demangle_cache = {}
    def demangle_all(self):
        names = sorted({n['mangledName'] for n in self.decl.values() if 'mangledName' in n and n['mangledName'] not in self._demangle_cache})
        if not names: return
        r = subprocess.run(['c++filt'], input='\n'.join(names).encode(), capture_output=True)
        outs = r.stdout.decode().split('\n')
        for a, b in zip(names, outs):
            self._demangle_cache[a] = b

    @staticmethod
    def _split_demangled(d):
        """'ret ns::cls::f<targs>(params) const' -> ('ns::cls::f<targs>', 'params')"""
        s = d.strip()
        s = re.sub(r"\s*\[clone [^\]]*\]$", '', s)
        if s.endswith(' const'): s = s[:-6]
        if not s.endswith(')'):
            return s, ''
        depth = 0; i = len(s) - 1
        while i >= 0:
            if s[i] == ')': depth += 1
            elif s[i] == '(':
                depth -= 1
                if depth == 0: break
            i -= 1
        params = s[i + 1:-1]; head = s[:i]
        if head.endswith('operator'):  # operator()
            j = head.rfind('(')
            # head like 'ns::operator' with params '' and real params follow -- rare, keep simple
        # strip return type (templates only): last top-level space
        depth = 0; cut = -1
        for k, ch in enumerate(head):
            if ch in '<(': depth += 1
            elif ch in '>)': depth -= 1
            elif ch == ' ' and depth == 0 and 'operator' not in head[:k + 10][-10:]:
                cut = k
        if cut >= 0 and 'operator ' not in head:
            head = head[cut + 1:]
        return head, params

    def fn_qname(self, node):
        nid = node['id']
        if nid in self.qname_of: return self.qname_of[nid]
        m = node.get('mangledName')
        q = None
        if m:
            d = self._demangle_cache.get(m)
            if d is None:
                self.demangle_all(); d = self._demangle_cache.get(m, m)
            q, _ = self._split_demangled(d)
        else:
            q = node.get('name', 'anon_fn')
        self.qname_of[nid] = q
        return q

    def assign_cnames(self):
        self.demangle_all()
        groups = {}
        for n in self.fn_nodes:
            q = self.fn_qname(n)
            groups.setdefault(q, [])
            if all(x['id'] != n['id'] for x in groups[q]):
                groups[q].append(n)
        for q, nodes in groups.items():
            base = sanitize(short_ns(q.replace('(anonymous namespace)::', 'anon::')))
            if len(base) > 72:
                base = base[:56] + '_h' + hashlib.sha1(q.encode()).hexdigest()[:8]
            for n in nodes:
                c = base
                if len(nodes) > 1:
                    ps = [p for p in n.get('inner', []) if p.get('kind') == 'ParmVarDecl']
                    sig = '_'.join(sanitize(p['type']['qualType'].split('::')[-1]) or 'v' for p in ps) or 'void'
                    c = base + '__' + sig
                if n['kind'] == 'CXXConstructorDecl' and not c.endswith('ctor'):
                    c = c + '__ctor' if len(nodes) == 1 else c.replace(base, base + '__ctor', 1)
                k = 2; c0 = c
                while c in self.fn_by_cname and self.fn_by_cname[c]['id'] != n['id']:
                    c = '%s_%d' % (c0, k); k += 1
                self.fn_by_cname[c] = n
                self.cname_of[n['id']] = c
                loc = n.get('range', {})
                self.srcinfo[c] = self._src_range(n)

    def _src_range(self, n):
        return (n.get('_file'), n.get('_line'), n.get('_endline'))

    def find_fn(self, qpattern):
        """functions whose qualified name matches a glob-ish pattern (regex)"""
        rx = re.compile(qpattern + r'$')
        return [c for c, n in self.fn_by_cname.items() if rx.match(self.fn_qname(n))]

    # ------------------------------------------------------------------ types
    def resolve_alias(self, name):
        a = self.aliases.get(name)
        if a is None or a == name or a.strip() == name: return None
        return a

    def tparse(self, tnode_or_str):
        if isinstance(tnode_or_str, dict):
            s = tnode_or_str.get('desugaredQualType') or tnode_or_str.get('qualType')
        else:
            s = tnode_or_str
        m = re.match(r"^auto \((.*)\)( const)?( noexcept)? -> (.+)$", s)
        if m: s = '%s (%s)%s' % (m.group(4), m.group(1), m.group(2) or '')
        # libstdc++ spells the element type of a container through allocator traits in some signatures
        s = re.sub(r"(?:typename )?__gnu_cxx::__alloc_traits<std::allocator<(.+)>, \1>::(?:value_type|reference|const_reference)", r"\1", s)
        try:
            return parse_type(s)
        except TypeErrorX as e:
            raise Unsupported(str(e))

    def mangle_t(self, t):
        """short identifier for a type, used in shim instantiation names"""
        c = self.ctype_t(t)
        c = c.replace('struct ', '').replace('unsigned ', 'u').replace(' *', '_p').replace('*', '_p').replace(' ', '_')
        return re.sub(r"[^A-Za-z0-9_]", '_', c)

    def inst(self, macro, *args):
        key = (macro,) + tuple(args)
        if key not in self._inst_seen:
            self._inst_seen.add(key)
            self.need_inst.append(key)

    def category(self, t):
        """category of a (non-reference) type: 'scalar','ptr','str','sv','vec','opt','sp','il','record','enum','chariter','veciter',...'"""
        t = t.strip_ref()
        if t.kind == 'ptr': return 'ptr'
        if t.kind == 'array': return 'carray'
        if t.kind == 'func': return 'func'
        if t.kind == 'lit': return 'lit'
        n = t.name
        m = re.match(r"^std::vector<(.+)>::(const_)?(reverse_)?iterator$", n)
        if m and not t.args:
            # member typedefs of std::vector that clang left sugared
            elem = ('const ' if m.group(2) else '') + m.group(1) + ' *'
            inner = '__gnu_cxx::__normal_iterator<%s, std::vector<%s>>' % (elem, m.group(1))
            full = 'std::reverse_iterator<%s>' % inner if m.group(3) else inner
            nt = self.tparse(full)
            t.name = nt.name; t.args = nt.args
            return self.category(t)
        m = re.match(r"^std::(?:__shared_ptr_access|__shared_ptr|shared_ptr)<(.+?)(?:, __gnu_cxx::[A-Za-z_]+(?:, (?:true|false))*)?>::element_type$", n)
        if m and not t.args:
            # the pointee type of a shared_ptr, as clang prints the return type of operator-> / operator*
            nt = self.tparse(m.group(1))
            t.kind = nt.kind; t.name = nt.name; t.args = nt.args; t.to = nt.to
            return self.category(t)
        if n in BUILTIN_C: return 'scalar'
        if n in STRING_NAMES: return 'str'
        if n in SV_NAMES: return 'sv'
        if n in VEC_NAMES: return 'vec'
        if n in OPT_NAMES: return 'opt'
        if n in SP_NAMES: return 'sp'
        if n in IL_NAMES: return 'il'
        if n in ITER_NAMES: return 'iter'
        if n in REVITER_NAMES: return 'riter'
        if n in ARRAY_NAMES: return 'stdarray'
        if n in UMAP_NAMES and t.args and self.category(t.args[0]) == 'str': return 'umap'
        if n in UMAPITER_NAMES: return 'umapiter'
        if n in FSTREAM_NAMES: return 'fstream'
        if n in SSTREAM_NAMES: return 'sstream'
        if n in ('std::nullopt_t',): return 'nullopt'
        if n in ('std::pair', 'pair'): return 'pair'
        if n in ('std::atomic', 'atomic'): return 'atomic'
        if n in ('std::function', 'function'): return 'stdfn'
        if n in ('std::chrono::duration', 'std::chrono::time_point', 'duration', 'time_point') or n in CHRONO_ALIASES: return 'chrono'
        if n in self.enums: return 'enum'
        if n in self.records: return 'record'
        full = self.complete_name(n)
        if full is not None and full != n:
            t.name = full
            return self.category(t)
        a = self.resolve_alias(n)
        if a is not None:
            ta = self.tparse(a)
            cat = self.category(ta)
            # canonicalise: the alias node becomes its target (keeps const)
            t.kind = ta.kind; t.name = ta.name; t.args = ta.args; t.to = ta.to; t.n = ta.n; t.params = ta.params
            t.const = t.const or ta.const
            return cat
        if n in self.opts.get('opaque_types', ()) or n in ('std::filesystem::path', 'std::filesystem::__cxx11::path'): return 'opaque'
        return 'unknown'

    def complete_name(self, n):
        """clang prints sugared names relative to the current scope (e.g. 'etoken'); complete them when unique"""
        if n in self._complete_cache: return self._complete_cache[n]
        suf = '::' + n
        c = [q for q in list(self.enums) + list(self.records) + list(self.aliases) if q.endswith(suf)]
        c = sorted(set(c))
        r = c[0] if len(c) == 1 else None
        self._complete_cache[n] = r
        return r

    def chrono_den(self, t):
        """ticks per second of a std::chrono duration / time_point type (ratio<1, D>), None if not chrono"""
        t = t.strip_ref()
        if t.kind != 'named' or self.category(t) != 'chrono': return None
        if t.name in CHRONO_ALIASES: return CHRONO_ALIASES[t.name]
        if t.name.endswith('time_point'):
            return self.chrono_den(t.args[1]) if len(t.args) > 1 else 1000000000
        if len(t.args) < 2: return 1
        r = t.args[1]
        if r.kind == 'named' and r.name in ('std::ratio', 'ratio') and len(r.args) >= 1:
            num = int(r.args[0].name); den = int(r.args[1].name) if len(r.args) > 1 else 1
            if num != 1: raise Unsupported('chrono ratio with numerator %d' % num)
            return den
        raise Unsupported('chrono period %r' % r)

    def ctype(self, tnode_or_str):
        return self.ctype_t(self.tparse(tnode_or_str))

    def ctype_t(self, t):
        if t.kind in ('ref', 'rref'):
            return self.ctype_t(t.to) + ' *'
        if t.kind == 'ptr':
            if t.to.kind == 'func':
                ft = t.to
                sig = '%s (*FNPTR)(%s)' % (self.ctype_t(ft.to), ', '.join(self.ctype_t(p) for p in ft.params) or 'void')
                if not hasattr(self, '_fnptr_types'): self._fnptr_types = {}
                if sig not in self._fnptr_types:
                    nm = 'fnptr_%d' % len(self._fnptr_types)
                    self._fnptr_types[sig] = nm
                    self.generated_types.append('typedef %s;' % sig.replace('FNPTR', nm))
                return self._fnptr_types[sig]
            return ('const ' if t.to.const and self.category(t.to) in ('scalar',) else '') + self.ctype_t(t.to) + ' *'
        if t.kind == 'array':
            raise Unsupported('array type in this position: %r' % t)
        if t.kind == 'func':
            raise Unsupported('function type %r' % t)
        cat = self.category(t)
        if t.kind != 'named':
            return self.ctype_t(t)      # an alias was canonicalised to a pointer / reference type
        n = t.name
        if cat == 'scalar': return BUILTIN_C[n]
        if cat == 'str': return 'str'
        if cat == 'sv': return 'sv'
        if cat == 'vec':
            m = self.mangle_t(t.args[0]); self.inst('VEC_DECL', self.ctype_t(t.args[0]), m); return 'struct vec_' + m
        if cat == 'opt':
            m = self.mangle_t(t.args[0]); self.inst('OPT_DECL', self.ctype_t(t.args[0]), m); return 'struct opt_' + m
        if cat == 'il':
            m = self.mangle_t(t.args[0]); self.inst('IL_DECL', self.ctype_t(t.args[0]), m); return 'struct il_' + m
        if cat == 'sp':
            self.dropped.add('smart pointer %s -> raw pointer (reference counts and destructors dropped)' % n)
            return self.ctype_t(t.args[0]) + ' *'
        if cat == 'iter':
            return self.ctype_t(t.args[0])
        if cat == 'riter':
            m = self.mangle_t(t.args[0]); self.inst('RITER_DECL', self.ctype_t(t.args[0]), m); return 'struct riter_' + m
        if cat == 'stdarray':
            raise Unsupported('std::array by value outside a declaration: %r' % t)
        if cat == 'umap':
            m = self.mangle_t(t.args[1]); self.inst('UMAP_DECL', self.ctype_t(t.args[1]), m); return 'struct umap_' + m
        if cat == 'umapiter':
            pair = t.args[0]
            m = self.mangle_t(pair.args[1]); self.inst('UMAP_DECL', self.ctype_t(pair.args[1]), m); return 'struct umap_%s_pair *' % m
        if cat == 'fstream': return 'vfile'
        if cat == 'sstream': return 'strbuf'
        if cat == 'atomic':
            self.dropped.add('std::atomic<T> -> T (sequential semantics)')
            return self.ctype_t(t.args[0])
        if cat == 'stdfn':
            return 'struct stdfn'
        if cat == 'chrono':
            return 'long'       # tick count; the unit is tracked by the translator from the type (chrono_den)
        if cat == 'enum':
            self.use_enum(n); return 'int'
        if cat == 'record':
            self.use_record(n); return 'struct ' + self.record_cname(n)
        if cat == 'nullopt': return 'int'
        if cat == 'opaque':
            m = sanitize(n.replace('__cxx11::', ''))
            self.inst('OPAQUE_DECL', m)
            self.dropped.add('type %s is opaque: only default construction, copy and assignment are translated' % n)
            return 'struct opaque_' + m
        a = self.resolve_alias(n)
        if a is not None:
            return self.ctype(a)
        if self.opts.get('unknown_types_opaque'):
            m = sanitize(repr(t))
            if len(m) > 60: m = m[:44] + '_h' + hashlib.sha1(repr(t).encode()).hexdigest()[:8]
            self.inst('OPAQUE_DECL', m)
            self.dropped.add('type %r is opaque (no operation on it is translated)' % t)
            return 'struct opaque_' + m
        raise Unsupported('no mapping for type %r' % t)

    def record_cname(self, q):
        return sanitize(short_ns(q))

    def use_record(self, q):
        if q not in self.need_records:
            self.need_records.append(q)

    def use_enum(self, q):
        if q not in self.need_enums:
            self.need_enums.append(q)

    def decl_text(self, tnode_or_str, name):
        """C declaration of a variable/field of the given C++ type"""
        t = self.tparse(tnode_or_str)
        return self.decl_text_t(t, name)

    def decl_text_t(self, t, name):
        if t.kind == 'array':
            inner = self.decl_text_t(t.to, name)
            return '%s[%s]' % (inner, t.n if t.n is not None else '')
        if t.kind == 'named' and self.category(t) == 'stdarray':
            return '%s %s[%s]' % (self.ctype_t(t.args[0]), name, t.args[1].name)
        return '%s %s' % (self.ctype_t(t), name)

    # ------------------------------------------------------------------ records / enums
    def record_fields(self, q):
        node = self.records[q]
        fields = []
        for i, b in enumerate(node.get('bases', [])):
            fields.append(('__base' if i == 0 else '__base%d' % i, b['type'], None))
        for c in node.get('inner', []):
            if c.get('kind') == 'FieldDecl':
                fields.append((c['name'], c['type'], c))
        return fields

    def emit_record(self, q, out, done, stack=()):
        if q in done: return
        if q in stack:
            raise Unsupported('recursive by-value record %s' % q)
        fields = self.record_fields(q)
        lines = []
        for (name, ty, node) in fields:
            t = self.tparse(ty)
            # by-value dependencies first
            self._emit_value_deps(t, out, done, stack + (q,))
            try:
                lines.append('  ' + self.decl_text_t(t, name) + ';')
            except Unsupported as e:
                if self.opts.get('unknown_fields_opaque', True):
                    lines.append('  char __opaque_%s; /* dropped field of unsupported type: %s */' % (name, t))
                    self.dropped.add('field %s::%s of unsupported type %r dropped' % (q, name, t))
                else:
                    raise
        for (gname, gtype) in (self.hooks.ghost_fields(q) if self.hooks else []):
            lines.append('  %s %s; /* ghost */' % (gtype, gname))
        if not lines:
            lines.append('  char __empty;')
        done.add(q)
        out.append('struct %s {\n%s\n};' % (self.record_cname(q), '\n'.join(lines)))

    def _emit_value_deps(self, t, out, done, stack):
        if t.kind in ('ptr', 'ref', 'rref', 'func'): return
        if t.kind == 'array':
            return self._emit_value_deps(t.to, out, done, stack)
        cat = self.category(t)
        if cat == 'record':
            self.emit_record(t.name, out, done, stack)
        elif cat in ('opt', 'stdarray', 'pair', 'umap'):
            for a in t.args:
                if a.kind != 'lit': self._emit_value_deps(a, out, done, stack)
        elif cat == 'unknown':
            a = self.resolve_alias(t.name)
            if a: self._emit_value_deps(self.tparse(a), out, done, stack)

    def enum_constants(self, q):
        node = self.enums[q]; val = -1; res = []
        for c in node.get('inner', []):
            if c.get('kind') != 'EnumConstantDecl': continue
            v = None
            for x in c.get('inner', []):
                v = self._const_value(x)
            val = v if v is not None else val + 1
            res.append((c['name'], val, c['id']))
        return res

    def _const_value(self, x):
        if x.get('kind') == 'ConstantExpr' and 'value' in x:
            return int(x['value'])
        if x.get('kind') in ('IntegerLiteral', 'CharacterLiteral'):
            return int(x['value'])
        for c in x.get('inner', []):
            v = self._const_value(c)
            if v is not None: return v
        return None

    def enum_const_cname(self, q, name):
        return sanitize(short_ns(q)) + '__' + name

    # ------------------------------------------------------------------ functions
    def want_fn(self, fid):
        if fid not in self._fn_seen:
            self._fn_seen.add(fid)
            self.need_fns.append(fid)

    def fn_params(self, node):
        return [p for p in node.get('inner', []) if p.get('kind') == 'ParmVarDecl']

    def _is_static_member(self, node):
        seen = 0
        while node is not None and seen < 6:
            if node.get('storageClass') == 'static': return True
            p = node.get('previousDecl')
            node = self.decl.get(p) if p else None
            seen += 1
        return False

    def fn_is_method(self, node):
        if node.get('_lambda_free'): return False
        if self._is_static_member(node): return False
        return node['kind'] in ('CXXMethodDecl', 'CXXConstructorDecl', 'CXXDestructorDecl', 'CXXConversionDecl') and node.get('storageClass') != 'static'

    def fn_class_qname(self, node):
        if node.get('_class_q'): return node['_class_q']
        q = self.fn_qname(node)
        m_ = re.match(r"^(.*)::operator\s*(->\*?|<<=?|>>=?|<=>|[<>]=?|\(\)|\[\])$", q)
        if m_: return m_.group(1)      # operators whose symbol contains < or > would upset the bracket matching below
        k = q.find('::operator ')
        if k > 0 and node.get('kind') == 'CXXConversionDecl':
            return q[:k]          # conversion function: `cls::operator some::qualified::type`
        # strip template args on the last component then the last component
        depth = 0; i = len(q) - 1
        while i >= 0:
            ch = q[i]
            if ch == '>': depth += 1
            elif ch == '<': depth -= 1
            elif ch == ':' and depth == 0 and i > 0 and q[i - 1] == ':':
                c = q[:i - 1]
                # class local to a function: `ns::fn(args)::cls` is indexed under its plain name
                m = re.match(r"^.*\)(?: const)?::([A-Za-z_][A-Za-z_0-9]*(?:::[A-Za-z_][A-Za-z_0-9]*)*)$", c)
                if m and m.group(1) in self.records: return m.group(1)
                return c
            i -= 1
        return None

    def fn_ret_type(self, node):
        ft = self.tparse(node['type'])
        if ft.kind != 'func':
            raise Unsupported('function type expected: %s' % node['type'])
        return ft.to

    def fn_signature(self, node, cname=None):
        cname = cname or self.cname_of[node['id']]
        ps = []
        if self.fn_is_method(node):
            cq = self.fn_class_qname(node)
            if cq not in self.records:
                raise Unsupported('class %s of method %s not loaded (add a filter)' % (cq, cname))
            self.use_record(cq)
            const = 'const ' if re.search(r"\)\s*const", node['type']['qualType']) else ''
            ps.append('struct %s *self' % self.record_cname(cq))
        if node.get('_lambda_env'):
            ps.append('void *__env')
        for p in self.fn_params(node):
            pname = p.get('name') or ('__unnamed%d' % len(ps))
            ps.append(self.decl_text(p['type'], self.local_name(p, pname)))
        if node['kind'] in ('CXXConstructorDecl', 'CXXDestructorDecl'):
            ret = 'void'
        else:
            ret = self.ctype_t(self.fn_ret_type(node))
        return '%s %s(%s)' % (ret, cname, ', '.join(ps) if ps else 'void')

    def local_name(self, decl, name=None):
        name = name or decl.get('name') or ('__anon_%s' % decl['id'][-5:])
        if name in C_KEYWORDS: name = name + '_'
        return name

C_KEYWORDS = {'register', 'restrict', 'auto', 'typeof', 'inline', 'signed', 'unsigned'}
