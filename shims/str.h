/* std::string / std::string_view shims: concrete bytes, symbolic length. */
#ifndef VERIF_SHIM_STR_H
#define VERIF_SHIM_STR_H
#include "base.h"
#include <stdlib.h>
#include <string.h>

static inline const char *sv_at(const sv *s, unsigned long i) { SHIM_ASSERT(i < s->len, "shim.string_view.index.in_range"); return &s->data[i]; }
static inline const char *sv_back(const sv *s) { SHIM_ASSERT(s->len > 0, "shim.string_view.back.nonempty"); return &s->data[s->len - 1]; }
static inline const char *sv_at_checked(const sv *s, unsigned long i) { if (!(i < s->len)) { __exc = EXC_out_of_range; return s->data; } return &s->data[i]; }
/* std::string::operator[](size()) is the terminating NUL */
static inline char *str_at(str *s, unsigned long i) { SHIM_ASSERT(i <= s->len, "shim.string.index.in_range"); return &s->data[i]; }
static inline char *str_back(str *s) { SHIM_ASSERT(s->len > 0, "shim.string.back.nonempty"); return &s->data[s->len - 1]; }
static inline char *str_at_checked(str *s, unsigned long i) { if (!(i < s->len)) { __exc = EXC_out_of_range; return s->data; } return &s->data[i]; }
static inline sv str_view(const str *s) { sv r; r.data = s->data; r.len = s->len; r.id = s->id; return r; }
static inline sv str_view_v(str s) { sv r; r.data = s.data; r.len = s.len; r.id = s.id; return r; }
static inline sv sv_substr(sv s, unsigned long pos, unsigned long n) {
  sv r; r.id = 0; if (pos > s.len) { __exc = EXC_out_of_range; r.data = s.data; r.len = 0; return r; }
  unsigned long rem = s.len - pos; r.data = s.data + pos; r.len = n < rem ? n : rem; if (pos == 0 && r.len == s.len) r.id = s.id; return r; }
/* string equality: exact on length and on identical storage; otherwise the byte comparison is abstract
   (nondeterministic), because cbmc's memcmp model is a loop over a symbolic length.  Sound over-approximation: both
   outcomes are explored wherever the bytes could differ. */
static inline _Bool sv_eq(sv a, sv b) {
  if (a.id != 0 && b.id != 0) return a.id == b.id;
  if (a.len != b.len) return 0;
  if (a.len == 0 || a.data == b.data) return 1;
  return nondet_bool(); }
#ifdef SHIM_STR_PRECISE
static inline str str_empty(void) { str r; r.data = (char *)malloc(1); __CPROVER_assume(r.data != 0); r.data[0] = 0; r.len = 0; r.id = 0; return r; }
#else
/* content-abstract mode: copies of strings do not allocate (cbmc 6.11 dfcc forbids malloc inside loops that have a
   contract, and std::string parameters are copied everywhere).  A copy aliases the bytes of its source; since the bytes
   are never constrained in this mode (only length, first byte where stated, and the content class id), aliasing has no
   effect on what is proved.  Operations that change bytes clear the id of the changed object only. */
static char g_empty_str_storage[1];
static inline str str_empty(void) { str r; r.data = g_empty_str_storage; r.len = 0; r.id = 0; return r; }
#endif
static inline str str_from_range(const char *a, const char *b) {
  SHIM_ASSERT(__CPROVER_same_object(a, b) && a <= b, "shim.string.range_valid");
  unsigned long n = (unsigned long)(b - a);
  str r;
#ifdef SHIM_STR_PRECISE
  r.data = (char *)malloc(n + 1); __CPROVER_assume(r.data != 0);
  if (n > 0) memcpy(r.data, a, n);
  r.data[n] = 0;
#else
  r.data = (char *)a;     /* aliases the source bytes, see above */
#endif
  r.len = n; r.id = 0; return r; }
static inline str str_from_sv(sv s) { str r = str_from_range(s.data, s.data + s.len); r.id = s.id; return r; }
/* std::count over characters: a loop; callers that need it unbounded must give it a contract */
static inline long shim_count_char(const char *a, const char *b, char c) {
  long n = 0;
  for (const char *p = a; p != b; ++p) if (*p == c) n++;
  return n; }
/* concatenation: length exact; the first byte of the result is exact, the other bytes are unconstrained unless
   SHIM_STR_PRECISE is defined (over-approximation, see DESIGN.md section 3) */
static inline str str_concat(sv a, sv b) {
  SHIM_ASSERT(a.len < ((unsigned long)1 << 40) && b.len < ((unsigned long)1 << 40), "shim.string.size_sane");
  unsigned long n = a.len + b.len;
  str r; r.data = (char *)malloc(n + 1); __CPROVER_assume(r.data != 0);
#ifdef SHIM_STR_PRECISE
  if (a.len > 0) memcpy(r.data, a.data, a.len);
  if (b.len > 0) memcpy(r.data + a.len, b.data, b.len);
#else
  if (n > 0) r.data[0] = a.len > 0 ? a.data[0] : b.data[0];
#endif
  r.data[n] = 0; r.len = n; return r; }
/* std::transform over characters with a capture-less function (in place or into another buffer of the same length) */
static inline char *shim_transform_char2(char *b, char *e, char *o, char (*f)(char), char (*fr)(char *)) {
  SHIM_ASSERT(__CPROVER_same_object(b, e) && b <= e, "shim.transform.range_valid");
  unsigned long n = (unsigned long)(e - b); unsigned long i = 0;
  while (i < n)
    __CPROVER_assigns(i, __CPROVER_object_whole(o))
    __CPROVER_loop_invariant(i <= n)
    __CPROVER_decreases(n - i)
  { o[i] = f ? f(b[i]) : fr(&b[i]); i++; }
  return o + n; }
static inline char *shim_transform_char(char *b, char *e, char *o, char (*f)(char)) { return shim_transform_char2(b, e, o, f, (char (*)(char *))0); }
/* in-place std::transform over a whole std::string.  The characters are mapped one by one (loop contract).  Content class of
   the result: for tag 0 (std::tolower on every character) ids are read as (case-insensitive class << 8 | case variant) and
   the lower-cased string is variant 0 of the same class: a function of the old id, idempotent, equal for two names that
   differ only in case.  Any assignment of contents to names has a consistent assignment of such ids, and the harness leaves
   the ids unconstrained, so nothing is assumed.  Other mappings give an unknown class (id 0).  cbmc's
   __CPROVER_uninterpreted_ functions are not functional after goto-instrument --dfcc (measured), hence the concrete coding. */
#define LC_CLASS(id) ((id) & ~(unsigned long)0xFF)
static inline char *str_transform_inplace(str *s, char (*f)(char), char (*fr)(char *), unsigned long tag) {
  char *e = shim_transform_char2(s->data, s->data + s->len, s->data, f, fr);
  s->id = (tag == 0) ? LC_CLASS(s->id) : 0;
  return e; }
/* std::string::find(char, pos): first index >= pos holding the character, npos ((size_t)-1) when there is none */
static inline unsigned long str_find_char(const str *s, char c, unsigned long pos) {
  unsigned long i = pos;
  while (i < s->len)
    __CPROVER_assigns(i)
    __CPROVER_loop_invariant(i >= pos)
    __CPROVER_decreases(s->len - i)
  { if (s->data[i] == c) return i; i++; }
  return (unsigned long)-1; }
/* std::string::compare: 0 exactly when the contents are equal (sv_eq), otherwise some non-zero value (the order is not modelled) */
static inline int sv_compare(sv a, sv b) { if (sv_eq(a, b)) return 0; int r = nondet_int(); __CPROVER_assume(r != 0); return r; }
/* std::hash<std::string>: a function of the content; for a string of known content class it is that class, otherwise unknown */
static inline unsigned long shim_hash_sv(sv s) { return s.id != 0 ? s.id : nondet_ulong(); }
/* std::to_string / number formatting: the digits are opaque (libc), the length is between 1 and 330 bytes */
static inline str str_from_num(double v) {
  unsigned long n = nondet_ulong(); __CPROVER_assume(n >= 1 && n <= 330);
  str r; r.data = (char *)malloc(n + 1); __CPROVER_assume(r.data != 0); r.data[n] = 0; r.len = n; r.id = 0; return r; }
static inline str *str_assign(str *d, sv s) { *d = str_from_sv(s); return d; }
static inline str str_substr(const str *s, unsigned long pos, unsigned long n) {
  if (pos > s->len) { __exc = EXC_out_of_range; return str_empty(); }
  unsigned long rem = s->len - pos; unsigned long k = n < rem ? n : rem;
  return str_from_range(s->data + pos, s->data + pos + k); }

/* std::stoul / stoi / stol / stod: value is opaque (nondeterministic); the exception behaviour is modelled on the
 * first character (what decides std::invalid_argument) and the length (what can make std::out_of_range possible). */
static inline int shim_sto_class(sv s, unsigned long maxdigits) {
  if (s.len == 0) { __exc = EXC_invalid_argument; return 0; }
  char c = s.data[0];
  _Bool digit = (c >= '0' && c <= '9');
  _Bool lead = (c == ' ' || (c >= 9 && c <= 13) || c == '+' || c == '-' || c == '.');
  if (!digit && !lead) { __exc = EXC_invalid_argument; return 0; }
  if (!digit && nondet_bool()) { __exc = EXC_invalid_argument; return 0; }
  if (s.len >= maxdigits && nondet_bool()) { __exc = EXC_out_of_range; return 0; }
  return 1; }
static inline unsigned long shim_stoul(sv s) { if (!shim_sto_class(s, 20)) return 0; return nondet_ulong(); }
static inline long shim_stol(sv s) { if (!shim_sto_class(s, 19)) return 0; return nondet_long(); }
/* a number that starts with a digit is not negative */
static inline int shim_stoi(sv s) { if (!shim_sto_class(s, 10)) return 0; int r = nondet_int(); if (s.data[0] >= '0' && s.data[0] <= '9') __CPROVER_assume(r >= 0); return r; }
static inline double shim_stod(sv s) { if (!shim_sto_class(s, 300)) return 0; return nondet_double(); }
static inline float shim_stof(sv s) { if (!shim_sto_class(s, 38)) return 0; return nondet_float(); }
/* std::stringstream used as an output buffer: only the number of bytes written is modelled (saturating), the bytes are opaque */
typedef struct { unsigned long len; } strbuf;
#define STRBUF_MAX ((unsigned long)1 << 40)
static inline strbuf strbuf_empty(void) { strbuf b; b.len = 0; return b; }
static inline strbuf *strbuf_put_n(strbuf *b, unsigned long n) { b->len = (n >= STRBUF_MAX || b->len >= STRBUF_MAX - n) ? STRBUF_MAX : b->len + n; return b; }
static inline strbuf *strbuf_put_sv(strbuf *b, sv s) { return strbuf_put_n(b, s.len); }
static inline strbuf *strbuf_put_char(strbuf *b, char c) { return strbuf_put_n(b, 1); }
static inline strbuf *strbuf_put_num(strbuf *b, double v) { unsigned long n = nondet_ulong(); __CPROVER_assume(n >= 1 && n <= 330); return strbuf_put_n(b, n); }
static inline str strbuf_str(strbuf *b) { str r; r.data = (char *)malloc(b->len + 1); __CPROVER_assume(r.data != 0); r.data[b->len] = 0; r.len = b->len; r.id = 0; return r; }
/* a C string of unknown (but finite) length: the length is opaque */
static inline sv sv_from_cstr(const char *p) { sv r; r.data = p; r.len = nondet_ulong(); __CPROVER_assume(r.len < 4096); r.id = 0; return r; }
static inline void str_clear(str *s) { s->len = 0; s->id = 0; if (s->data) s->data[0] = 0; }
#endif
