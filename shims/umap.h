/* std::unordered_map<std::string, V>: ghost-key projection (DESIGN.md section 3).
 * The harness fixes one ghost key class g_key_id; a map is reduced to its behaviour on that key: (has, value), plus its
 * size.  Operations with another key leave the projection unchanged and return unconstrained results; a key of unknown
 * class (id 0) may or may not be the ghost key.  Whatever is proved about "the ghost key" holds for every key.
 * Iterators are pointers to a pair; end() is the null pointer.  Iteration over a map is not modelled.
 */
#ifndef VERIF_SHIM_UMAP_H
#define VERIF_SHIM_UMAP_H
#include "base.h"
#include "str.h"
extern unsigned long g_key_id;       /* ghost: content class of the ghost key (non-zero) */
static inline int sv_key_class(sv k) { if (k.id == 0) return -1; return k.id == g_key_id ? 1 : 0; }
/* data-structure invariant for the values of keys other than the ghost key: a spec may #undef/#define UMAP_OTHER_OK(M, p)
   to the invariant it PROVES for the ghost key on every write (the ghost key is arbitrary, so the invariant holds for every
   key); find() then assumes it for the unconstrained pair it returns for another key.  Default: nothing assumed. */
#ifndef UMAP_OTHER_OK
#define UMAP_OTHER_OK(M, p) 1
#endif
#define UMAP_T(V, M) \
  struct umap_##M##_pair { str first; V second; }; \
  struct umap_##M { _Bool has; struct umap_##M##_pair slot; unsigned long size; };
#define UMAP_F(V, M) \
  extern struct umap_##M##_pair g_umap_other_##M; \
  static inline struct umap_##M##_pair *umap_##M##_find(struct umap_##M *m, sv key) { \
    int c = sv_key_class(key); \
    if (c == 1 || (c == -1 && nondet_bool())) return (m->has != 0) ? &m->slot : (struct umap_##M##_pair *)0; \
    if (nondet_bool()) { __CPROVER_assume(UMAP_OTHER_OK(M, (&g_umap_other_##M))); return &g_umap_other_##M; } \
    return (struct umap_##M##_pair *)0; } \
  static inline V *umap_##M##_index(struct umap_##M *m, sv key) { \
    int c = sv_key_class(key); \
    if (c == 1 || (c == -1 && nondet_bool())) { if (!m->has) { V zero = {0}; m->has = 1; m->slot.second = zero; m->slot.first = str_from_sv(key); m->size += 1; } return &m->slot.second; } \
    if (nondet_bool()) m->size += 1; \
    return &g_umap_other_##M.second; } \
  static inline V *umap_##M##_at(struct umap_##M *m, sv key) { \
    int c = sv_key_class(key); \
    if (c == 1 || (c == -1 && nondet_bool())) { if (!m->has) __exc = EXC_out_of_range; return &m->slot.second; } \
    if (nondet_bool()) __exc = EXC_out_of_range; \
    return &g_umap_other_##M.second; } \
  static inline unsigned long umap_##M##_erase(struct umap_##M *m, sv key) { \
    int c = sv_key_class(key); \
    if (c == 1 || (c == -1 && nondet_bool())) { if (m->has) { m->has = 0; m->size -= 1; return 1; } return 0; } \
    if (nondet_bool() && m->size > (m->has ? 1u : 0u)) { m->size -= 1; return 1; } return 0; }
#endif
