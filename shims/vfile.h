/* std::fstream / std::ifstream over a byte array (read path).  The model of libstdc++ stream state used here:
 *  - read(buf,n): if fail: gcount=0. Else copies min(n, size-pos) bytes; short read sets eof|fail; gcount = copied.
 *  - get(): one byte or EOF(-1) setting eof|fail.
 *  - tellg(): -1 when fail, else pos.      - seekg(p): no-op when fail; clears eof first (C++11); pos = p; p<0 or p>size -> fail
 *  - clear(): eof = fail = 0.
 * Writing primitives exist only so that read-path functions that call them are caught by their assigns clauses.
 */
#ifndef VERIF_SHIM_VFILE_H
#define VERIF_SHIM_VFILE_H
#include "base.h"
#include <string.h>
typedef struct { const char *bytes; unsigned long size; unsigned long pos; _Bool eof; _Bool fail; _Bool open; long gcount; } vfile;
extern unsigned long g_vfile_writes;   /* ghost: number of write/create primitives executed */

/* ghost: one arbitrary absolute file offset.  read() delivers the bytes of the file, but the model only pins down the
 * byte at this ghost offset (all other delivered bytes are unconstrained): an over-approximation of read() under which
 * anything proved about "the byte at g_vf_abs" holds for every offset (DESIGN.md 1.1, ghost index). */
extern unsigned long g_vf_abs;
static inline void vfile_read(vfile *f, char *buf, long n) {
  f->gcount = 0;
  if (n <= 0) return;
  if (f->eof || f->fail || !f->open) { f->fail = 1; return; }
  unsigned long avail = f->size - f->pos;
  unsigned long k = (unsigned long)n < avail ? (unsigned long)n : avail;
  if (k > 0) {
    __CPROVER_havoc_slice(buf, k);
    if (g_vf_abs >= f->pos && g_vf_abs - f->pos < k) buf[g_vf_abs - f->pos] = f->bytes[g_vf_abs];
  }
  f->pos += k; f->gcount = (long)k;
  if (k < (unsigned long)n) { f->eof = 1; f->fail = 1; } }
static inline long vfile_gcount(vfile *f) { return f->gcount; }
static inline int vfile_get(vfile *f) {
  f->gcount = 0;
  if (f->fail || !f->open) { f->fail = 1; return -1; }
  if (f->pos >= f->size) { f->eof = 1; f->fail = 1; return -1; }
  int c = (unsigned char)f->bytes[f->pos]; f->pos += 1; f->gcount = 1; return c; }
static inline long vfile_tellg(vfile *f) { if (f->fail || !f->open) return -1; return (long)f->pos; }
static inline void vfile_seekg(vfile *f, long p) {
  f->eof = 0;
  if (f->fail || !f->open) return;
  if (p < 0 || (unsigned long)p > f->size) { f->fail = 1; return; }
  f->pos = (unsigned long)p; }
static inline void vfile_seekg2(vfile *f, long off, int dir) {
  f->eof = 0;
  if (f->fail || !f->open) return;
  long base = dir == 0 ? 0 : (dir == 1 ? (long)f->pos : (long)f->size);
  long p = base + off;
  if (p < 0 || (unsigned long)p > f->size) { f->fail = 1; return; }
  f->pos = (unsigned long)p; }
static inline void vfile_clear(vfile *f) { f->eof = 0; f->fail = 0; }
static inline _Bool vfile_good(const vfile *f) { return !f->eof && !f->fail; }
static inline _Bool vfile_eof(const vfile *f) { return f->eof; }
static inline _Bool vfile_fail(const vfile *f) { return f->fail; }
static inline _Bool vfile_is_open(const vfile *f) { return f->open; }
static inline void vfile_close(vfile *f) { f->open = 0; }
/* the file system seen by fstream constructors: one file, described by ghost globals set by the harness/spec */
extern const char *g_fs_bytes; extern unsigned long g_fs_size; extern _Bool g_fs_exists;
static inline vfile vfile_open_path(int mode) {
  vfile f; f.bytes = g_fs_bytes; f.size = g_fs_size; f.pos = 0; f.eof = 0; f.gcount = 0;
  if ((mode & 32) != 0 || ((mode & 16) != 0 && (mode & 8) == 0)) { g_vfile_writes += 1; f.open = 1; f.size = 0; }  /* trunc or out-only: creates/truncates */
  else f.open = g_fs_exists;
  f.fail = !f.open; return f; }
static inline void vfile_write(vfile *f, const char *p, long n) { g_vfile_writes += 1; }
#endif
