/* Shim library: small C models of the standard-library types the extracted code uses.
 * This is the trusted base for the standard library (DESIGN.md section 3).  Obligations that
 * correspond to undefined behaviour in libstdc++ are named assertions ("shim.<what>").
 */
#ifndef VERIF_SHIM_BASE_H
#define VERIF_SHIM_BASE_H
#include <stddef.h>
#include <stdint.h>

/* id: ghost content class of the string (0 = unknown).  Two strings with the same non-zero id have the same bytes and
   two strings with different non-zero ids have different bytes; shim copies propagate the id.  This lets contracts reason
   about "the same key" without comparing bytes (DESIGN.md section 3, ghost-key projection). */
typedef struct { char *data; unsigned long len; unsigned long id; } str;        /* data has len+1 bytes; data[len]==0 */
typedef struct { const char *data; unsigned long len; unsigned long id; } sv;

/* pending C++ exception (0 = none).  Classes: */
extern int __exc;
#define EXC_out_of_range 1
#define EXC_invalid_argument 2
#define EXC_bad_optional_access 3
#define EXC_runtime_error 4
#define EXC_other 9

/* nondeterministic primitives (declared, never defined: CBMC treats them as nondet) */
_Bool nondet_bool(void);
int nondet_int(void);
unsigned long nondet_ulong(void);
long nondet_long(void);
char nondet_char(void);
float nondet_float(void);
double nondet_double(void);

#define SHIM_ASSERT(c, msg) __CPROVER_assert((c), msg)
/* ghost: allocations sized by input data must stay below this bound (set by the spec, e.g. the file size) */
extern unsigned long g_alloc_bound;
extern unsigned long g_vec_idx;   /* ghost element index used by vector models that move elements */
void *malloc(unsigned long);
void *memset(void *, int, unsigned long);

/* push_back: reallocation gives new storage; the old elements are NOT copied (their values become unconstrained):
 * an over-approximation that is sound for obligations that do not depend on element values.  With
 * SHIM_VEC_REALLOC_ALWAYS every push_back reallocates (writes then only ever hit fresh memory, which keeps loop frame
 * conditions small); otherwise only a full vector reallocates. */
#ifdef SHIM_VEC_REALLOC_ALWAYS
#define VEC_PUSH_BODY(T) SHIM_ASSERT(v->size < ((unsigned long)1 << 40), "shim.vector.size_sane"); \
      { unsigned long nc = v->size + 1; T *nd = (T *)malloc(nc * sizeof(T)); __CPROVER_assume(nd != 0); v->data = nd; v->cap = nc; } \
      v->data[v->size] = x; v->size = v->size + 1;
#else
#define VEC_PUSH_BODY(T) if (v->size >= v->cap) { SHIM_ASSERT(v->size < ((unsigned long)1 << 40), "shim.vector.size_sane"); \
      unsigned long nc = v->size * 2 + 1; T *nd = (T *)malloc(nc * sizeof(T)); __CPROVER_assume(nd != 0); v->data = nd; v->cap = nc; } \
      v->data[v->size] = x; v->size = v->size + 1;
#endif
/* ---- std::vector<T> : concrete array, symbolic size; capacity must be provided by the precondition ---- */
#define VEC_T(T, M) struct vec_##M { T *data; unsigned long size; unsigned long cap; };
/* how resize() fills the grown part: default = a loop with a contract (the old elements are then unconstrained for the caller:
   good enough where only sizes matter); -DSHIM_VEC_RESIZE_EXACT8 = exact for capacities of at most 8 (asserted) */
#ifdef SHIM_VEC_RESIZE_EXACT8
#define SHIM_VEC_FILL1(T, k) if (v->size <= (k) && (k) < n) memset(&v->data[k], 0, sizeof(T));
#define SHIM_VEC_GROW_FILL(T) \
      SHIM_ASSERT(v->cap <= 8, "shim.vector.resize.exact_model_needs_capacity_at_most_8"); \
      SHIM_VEC_FILL1(T, 0) SHIM_VEC_FILL1(T, 1) SHIM_VEC_FILL1(T, 2) SHIM_VEC_FILL1(T, 3) SHIM_VEC_FILL1(T, 4) SHIM_VEC_FILL1(T, 5) SHIM_VEC_FILL1(T, 6) SHIM_VEC_FILL1(T, 7)
#else
#define SHIM_VEC_GROW_FILL(T) \
      unsigned long k_ = v->size; \
      while (k_ < n) \
        __CPROVER_assigns(k_, __CPROVER_object_whole(v->data)) \
        __CPROVER_loop_invariant(k_ >= v->size && k_ <= n) \
        __CPROVER_decreases(n - k_) \
      { memset(&v->data[k_], 0, sizeof(T)); k_++; }
#endif
/* how erase moves the tail down: default = ghost-index model (one pinned element exact, the others unconstrained);
   -DSHIM_VEC_ERASE_EXACT4 = exact for vectors of at most 4 elements (asserted), used where every element matters */
#ifdef SHIM_VEC_ERASE_EXACT4
#define SHIM_VEC_ERASE_MOVE(T) \
    SHIM_ASSERT(n <= 4, "shim.vector.erase.exact_model_needs_at_most_4_elements"); \
    if (idx + 1 < n) v->data[idx] = v->data[idx + 1]; \
    if (idx + 2 < n) v->data[idx + 1] = v->data[idx + 2]; \
    if (idx + 3 < n) v->data[idx + 2] = v->data[idx + 3];
#elif defined(SHIM_VEC_ERASE_EXACT8)
#define SHIM_VEC_ERASE_MOVE(T) \
    SHIM_ASSERT(n <= 8, "shim.vector.erase.exact_model_needs_at_most_8_elements"); \
    if (idx + 1 < n) v->data[idx] = v->data[idx + 1]; \
    if (idx + 2 < n) v->data[idx + 1] = v->data[idx + 2]; \
    if (idx + 3 < n) v->data[idx + 2] = v->data[idx + 3]; \
    if (idx + 4 < n) v->data[idx + 3] = v->data[idx + 4]; \
    if (idx + 5 < n) v->data[idx + 4] = v->data[idx + 5]; \
    if (idx + 6 < n) v->data[idx + 5] = v->data[idx + 6]; \
    if (idx + 7 < n) v->data[idx + 6] = v->data[idx + 7];
#else
#define SHIM_VEC_ERASE_MOVE(T) \
    _Bool pin = g_vec_idx >= idx && g_vec_idx + 1 < n; T keep; if (pin) keep = v->data[g_vec_idx + 1]; \
    if (n - idx > 1) __CPROVER_havoc_slice(pos, (n - idx - 1) * sizeof(T)); \
    if (pin) v->data[g_vec_idx] = keep;
#endif
#define VEC_F(T, M) \
  static inline T *vec_##M##_at(struct vec_##M *v, unsigned long i) { SHIM_ASSERT(i < v->size, "shim.vector.index.in_range"); return &v->data[i]; } \
  static inline T *vec_##M##_at_checked(struct vec_##M *v, unsigned long i) { if (!(i < v->size)) { __exc = EXC_out_of_range; return v->data; } return &v->data[i]; } \
  static inline T *vec_##M##_back(struct vec_##M *v) { SHIM_ASSERT(v->size > 0, "shim.vector.back.nonempty"); return &v->data[v->size - 1]; } \
  static inline T *vec_##M##_front(struct vec_##M *v) { SHIM_ASSERT(v->size > 0, "shim.vector.front.nonempty"); return &v->data[0]; } \
  static inline void vec_##M##_push_back(struct vec_##M *v, T x) { VEC_PUSH_BODY(T) } \
  static inline void vec_##M##_emplace_slot(struct vec_##M *v) { SHIM_ASSERT(v->size < v->cap, "shim.vector.capacity_provided_by_precondition"); v->size = v->size + 1; } \
  static inline void vec_##M##_pop_back(struct vec_##M *v) { SHIM_ASSERT(v->size > 0, "shim.vector.pop_back.nonempty"); v->size = v->size - 1; } \
  static inline void vec_##M##_clear(struct vec_##M *v) { v->size = 0; } \
  /* erase(pos): the elements behind pos move down by one.  Model: they become unconstrained except the one at the ghost \
     index g_vec_idx, which gets its exact new value (DESIGN.md 1.1 ghost index) */ \
  static inline T *vec_##M##_erase(struct vec_##M *v, T *pos) { \
    SHIM_ASSERT(__CPROVER_same_object(pos, v->data) && pos >= v->data && pos < v->data + v->size, "shim.vector.erase.position_valid"); \
    unsigned long idx = (unsigned long)(pos - v->data); unsigned long n = v->size; \
    SHIM_VEC_ERASE_MOVE(T) \
    v->size = n - 1; return pos; } \
  static inline void vec_##M##_reserve(struct vec_##M *v, unsigned long n) { \
    if (n > v->cap && v->size == 0) { SHIM_ASSERT(n <= g_alloc_bound, "shim.alloc.bounded_by_input"); \
      T *nd = (T *)malloc(n * sizeof(T)); __CPROVER_assume(nd != 0); v->data = nd; v->cap = n; } } \
  static inline void vec_##M##_resize(struct vec_##M *v, unsigned long n) { \
    SHIM_ASSERT(n <= g_alloc_bound, "shim.alloc.bounded_by_input"); __CPROVER_assume(n <= g_alloc_bound); /* reported once; do not model the giant allocation */ \
    if (n > v->cap) { SHIM_ASSERT(v->size == 0, "shim.vector.growing_resize_of_nonempty_vector_not_modelled"); __CPROVER_assume(v->size == 0); \
      T *nd = (T *)malloc(n * sizeof(T)); __CPROVER_assume(nd != 0); memset(nd, 0, n * sizeof(T)); v->data = nd; v->cap = n; } \
    else if (n > v->size) { /* growth within the capacity: the new elements are value-initialised */ \
      SHIM_VEC_GROW_FILL(T) } \
    v->size = n; }

#define OPT_T(T, M) struct opt_##M { _Bool has; T val; };
#define OPT_F(T, M) \
  static inline T *opt_##M##_deref(struct opt_##M *o) { SHIM_ASSERT(o->has, "shim.optional.engaged"); return &o->val; } \
  static inline T *opt_##M##_value(struct opt_##M *o) { if (!o->has) { __exc = EXC_bad_optional_access; } return &o->val; }

#define IL_T(T, M) struct il_##M { const T *data; unsigned long size; };
#define IL_F(T, M)
#define RITER_T(T, M) struct riter_##M { T base; };
#define RITER_F(T, M)
#define RITER_PREINC(p) ((p)->base = (p)->base - 1, (p))
#define RITER_PREDEC(p) ((p)->base = (p)->base + 1, (p))
/* rit++ / rit-- used as statements (the old value is discarded in every use the translator accepts) */
#define RITER_POSTINC(p) ((p)->base = (p)->base - 1, (p))
#define RITER_POSTDEC(p) ((p)->base = (p)->base + 1, (p))
#define OPAQUE_DECL(M) struct opaque_##M { char __opaque; };

/* std::function<R(Args...)>: code pointer + environment (the closure object of a lambda, or null) */
struct stdfn { void *fn; void *env; };
/* opaque heap object: non-null pointer into nothing (dereferencing it fails the pointer checks) */
void *nondet_ptr(void);
static inline void *shim_opaque_ptr(void) { void *p = nondet_ptr(); __CPROVER_assume(p != 0); return p; }
/* ---- std::vector<T>(first, last) from two iterators of one container: [first, last) must be a valid range (same storage,
   first not behind last, every element readable) - undefined behaviour otherwise - and the new storage is as large as the range ---- */
static inline unsigned long shim_range_len(const void *first, const void *last, unsigned long esz) {
  SHIM_ASSERT(__CPROVER_same_object(first, last), "shim.range.same_storage");
  SHIM_ASSERT(__CPROVER_POINTER_OFFSET(first) <= __CPROVER_POINTER_OFFSET(last), "shim.range.first_not_behind_last");
  unsigned long bytes = (unsigned long)(__CPROVER_POINTER_OFFSET(last) - __CPROVER_POINTER_OFFSET(first));
  SHIM_ASSERT(bytes == 0 || __CPROVER_r_ok(first, bytes), "shim.range.readable");
  SHIM_ASSERT(bytes / esz <= g_alloc_bound, "shim.alloc.bounded_by_input");
  return bytes / esz; }
/* ---- std::chrono::system_clock::now(): nanoseconds, nondeterministic but monotone (ghost g_last_now) ---- */
extern long g_last_now;
#ifdef SHIM_CLOCK_FRESH
extern _Bool g_clock_fresh;   /* ghost: set by every clock reading, cleared by whoever consumes "a fresh reading" (C11 deadline oracle) */
#define SHIM_CLOCK_READ() (g_clock_fresh = 1)
#else
#define SHIM_CLOCK_READ() ((void)0)
#endif
static inline long shim_now_ns(void) { long t = nondet_long(); __CPROVER_assume(t >= g_last_now && t < ((long)1 << 62)); g_last_now = t; SHIM_CLOCK_READ(); return t; }
/* ---- std::atomic<bool>::compare_exchange (sequential model; weak form may fail spuriously) ---- */
/* compare_exchange_weak may fail spuriously by the standard; on the x86-64 target this repository is built for here it is
   `lock cmpxchg` and cannot.  Default: weak == strong (listed as an assumption in every evidence file that uses it);
   -DSHIM_CAS_SPURIOUS models the spurious failure. */
#ifdef SHIM_CAS_SPURIOUS
#define SHIM_CAS_FAILS(weak) ((weak) && nondet_bool())
#else
#define SHIM_CAS_FAILS(weak) 0
#endif
static inline _Bool shim_cas_bool(_Bool *obj, _Bool *expected, _Bool desired, int weak) {
  if (*obj == *expected && !SHIM_CAS_FAILS(weak)) { *obj = desired; return 1; }
  *expected = *obj; return 0; }
static inline _Bool shim_xchg_bool(_Bool *obj, _Bool v) { _Bool o = *obj; *obj = v; return o; }
/* ---- <cstdlib> rand(): any value in [0, RAND_MAX] (2147483647 with glibc) ---- */
static inline int shim_rand(void) { int r = nondet_int(); __CPROVER_assume(r >= 0); return r; }
/* ---- roundf: cbmc 6.11's own model of roundf crashes symex after dfcc instrumentation ("l2_rename_rvalues case
   floatbv_typecast not handled"); round half away from zero, exact: values of magnitude >= 2^23, NaN and infinities are
   integral already / returned unchanged, below that the conversion to long is in range ---- */
static inline float shim_roundf(float x) {
  if (!(x > -8388608.0f && x < 8388608.0f)) return x;
  long t = (long)x; float d = x - (float)t;        /* truncation and an exact remainder */
  if (d >= 0.5f) t++; else if (d <= -0.5f) t--;
  return (float)t; }
#define roundf(x) shim_roundf(x)
/* ---- std::hash<float> (libstdc++ functional_hash.h): 0 for +0.0f and -0.0f, otherwise a function of the object representation
   (the murmur mix is replaced by the identity on the bit pattern: any function of the bits serves, collisions are not claimed) ---- */
static inline unsigned long shim_hash_float(float v) {
  if (v == 0.0f) return 0;
  union { float f; unsigned int u; } pun; pun.f = v; return (unsigned long)pun.u; }
/* ---- <cctype> : ASCII ("C" locale) ---- */
static inline int shim_tolower(int c) { return (c >= 'A' && c <= 'Z') ? c + 32 : c; }
static inline int shim_toupper(int c) { return (c >= 'a' && c <= 'z') ? c - 32 : c; }
static inline int shim_isdigit(int c) { return c >= '0' && c <= '9'; }
static inline int shim_isalpha(int c) { return (c >= 'a' && c <= 'z') || (c >= 'A' && c <= 'Z'); }
static inline int shim_isalnum(int c) { return shim_isalpha(c) || shim_isdigit(c); }
static inline int shim_isspace(int c) { return c == ' ' || (c >= 9 && c <= 13); }

#endif
