#!/bin/sh
# runs every claimed check (quick tier) on the current tree and validates MANIFEST and evidence files
cd "$(dirname "$0")" || exit 2
rc=0
for id in $(python3 -c "import json;print(' '.join(c['property_id'] for c in json.load(open('MANIFEST.json'))['checks']))"); do
  ./check $id --tier ${1:-quick} > .work/last_$id.log 2>&1; r=$?
  tail -1 .work/last_$id.log
  [ $r -ne 0 ] && { echo "  -> exit $r"; grep -E "^(VIOLATION|UNDECIDED|KNOWN)" .work/last_$id.log | head -5; rc=1; }
done
python3-vt - <<'PY'
import json, jsonschema, glob
m=json.load(open('MANIFEST.json')); jsonschema.validate(m,json.load(open('/root/.vp/MANIFEST.schema.json')))
s=json.load(open('/root/.vp/EVIDENCE.schema.json'))
for c in m['checks']:
    e=json.load(open(c['evidence_file'])); jsonschema.validate(e,s)
    cov=e['coverage']
    print(c['property_id'], 'evidence ok', cov['obligations'], cov['discharged'], 'violations', e.get('violations'))
PY
exit $rc
